//go:build verif

package c01

import (
	"fmt"
	"sort"
	"strconv"
	"strings"

	"verif/engine"
)

// The re-entrant family. One and the same compiled form is entered again
// while an earlier activation of it is still running: a multi-part form F of
// the core language sits in the body of a function (a defun, or a lambda
// held in a variable) whose parameter n is a depth counter, and one (or two,
// or every) evaluated sub-position of F - init form, step form, end test,
// result form, argument, binding value, clause test, clause body - holds a
// call of that very function with n-1. The inner activations run the same
// form object to completion (n-dependent loop limits and case keys make them
// take different paths through it) before the outer one goes on. Whatever an
// implementation keeps per FORM instead of per ACTIVATION (step records,
// argument buffers, iteration state, the selected clause) is overwritten by
// the inner activation and shows as a wrong value or trace of the outer one.
//
//	spec = r|<form>|<positions h or h+h or all>|<carrier>|<depth>|<mode>
//
// program (carrier defun, mode warm):
//
//	(let () (defun NAME (n) (tr 'in n) (let ((r nil)) (list n F r)))
//	        (list (NAME D) (NAME D)))
//
// a position that re-enters:  (progn (if (< 0 n) (setq r (cons (NAME (- n 1)) r))) LEAF)
// every other position:       LEAF = (tr 'kN V), V depending on n so that the
// activations compute different values (an integer N + 100 n, a list (N n)).
// The result of every inner activation is collected in the activation's own r
// and is part of its value, so the program's value shows every activation's
// variables, results and nesting; the trace shows the order of everything.
type rform struct {
	name string
	src  string
	t    *tmpl // parsed: holes and their position classes
}

var rformSrc = []struct{ name, src string }{
	{"do", "(do ((u ?0 (+ u ?1)) (v ?i ?i) (w ?i (+ w ?i))) ((or (<= (+ 1 n) u) ?f) ?a (list u v w ?a)) ?a ?a)"},
	{"do*", "(do* ((u ?0 (+ u ?1)) (v ?i ?i) (w ?i (+ w v ?i))) ((or (<= (+ 1 n) u) ?f) ?a (list u v w ?a)) ?a ?a)"},
	{"do-left-by-end-test-hole", "(do ((u 0 (+ u 1)) (v ?i (+ v u ?i))) ((and (<= 1 u) ?t) (list u v ?a)) ?a)"},
	{"do-no-step", "(do ((u 0 (+ u 1)) (v ?i) (w ?i ?i)) ((<= 2 u) (list u v w ?a)) ?a)"},
	{"dolist", "(let ((acc nil)) (dolist (i ?l (list i acc ?a)) (setq acc (cons (list i ?a) acc)) ?a))"},
	{"dotimes", "(let ((acc nil)) (dotimes (i (+ 1 n ?0) (list i acc ?a)) (setq acc (cons (list i ?a) acc)) ?a))"},
	{"let", "(let ((x ?i) (y ?i) (z ?i)) ?a (list x y z ?a))"},
	{"let*", "(let* ((x ?i) (y (+ x ?i)) (z (+ y ?i))) ?a (list x y z ?a))"},
	{"setq-pairs", "(let ((x 0) (y 0) (z 0)) (list (setq x ?i y (+ x ?i) z (+ y ?i)) x y z ?a))"},
	{"psetq", "(let ((x 1) (y 2) (z 3)) (psetq x (+ y ?i) y (+ z ?i) z (+ x ?i)) (list x y z ?a))"},
	{"cond", "(cond (?f ?a) ((= n 7) ?a) (?t ?a ?a) (t ?a))"},
	{"cond-last-clause", "(cond (?f ?a) (?f ?a) (t ?a ?a))"},
	{"case", "(case (+ n ?0) (0 ?a ?a) ((1 2) ?a ?a) (t ?a))"},
	{"if", "(list (if ?t ?a ?a) (if ?f ?a ?a))"},
	{"when-unless", "(list (when ?t ?a ?a) (unless ?f ?a ?a))"},
	{"and", "(list (and ?t ?t ?a) (and ?t ?f ?a))"},
	{"or", "(list (or ?f ?f ?a) (or ?f ?t ?a))"},
	{"progn-prog1-prog2", "(list (progn ?a ?a ?a) (prog1 ?a ?a ?a) (prog2 ?a ?a ?a))"},
	{"call-list", "(list ?a ?a ?a ?a)"},
	{"call-arithmetic", "(+ ?i (* ?i ?2) (- ?i ?i))"},
	{"call-lambda-form", "((lambda (a b c) (list c b a ?a)) ?a ?a ?a)"},
	{"funcall-lambda", "(funcall (lambda (a b c) (list c b a ?a)) ?a ?a ?a)"},
	{"funcall-designators", "(list (funcall #'list ?a ?a ?a) (funcall 'list ?a ?a))"},
	{"apply", "(list (apply (lambda (a b c d) (list d c b a ?a)) ?a ?a (list ?a ?a)) (apply #'list ?a (list ?a)))"},
	{"let-bound-closure", "(let ((x ?i)) (let ((g (lambda (a) (setq x (+ x a)) (list a x ?a)))) (list (funcall g ?i) (funcall g ?i) x)))"},
	{"multiple-value-bind", "(multiple-value-bind (a b c) (values ?a ?a) ?a (list a b c ?a))"},
	{"multiple-value-list-call", "(list (multiple-value-list (values ?a ?a ?a)) (multiple-value-call #'list ?a (values ?a ?a) ?a))"},
	{"multiple-value-setq-prog1", "(let ((x 0) (y 0)) (list (multiple-value-setq (x y) (values ?a ?a)) x y (multiple-value-list (multiple-value-prog1 (values ?a ?a) ?a))))"},
	{"nth-value", "(nth-value ?1 (values ?a ?a ?a))"},
	{"mapcar", "(mapcar (lambda (a b) (list a b ?a)) ?l ?l)"},
	{"mapcar-one-list", "(mapcar (lambda (a) ?a ?a) (list ?a ?a))"},
	{"mapc-maplist", "(list (mapc (lambda (a) ?a) ?l) (maplist (lambda (a) (list a ?a)) ?l))"},
}

var (
	rforms     []*rform
	rformByNam = map[string]*rform{}
)

var (
	rCarriers = []string{"defun", "lambda-in-variable", "defun-through-designator", "defun-indirect"}
	rModes    = []string{"cold", "warm-plain", "warm-full"}
)

func init() {
	for _, fs := range rformSrc {
		t := &tmpl{name: fs.name, typ: 'a', family: fs.name, src: fs.src}
		t.root = parseSexpr(fs.src)
		t.collect(t.root)
		hi := 0
		t.classify(t.root, "function-body", &hi)
		if hi != len(t.holes) {
			panic("c01: hole classification out of step in re-entrant form " + fs.name)
		}
		f := &rform{name: fs.name, src: fs.src, t: t}
		rforms = append(rforms, f)
		rformByNam[f.name] = f
	}
}

// enumerateReentrant: simplest first (one position, depth 1, defun, cold).
func enumerateReentrant(tier string, emit func(string)) {
	type posSet struct {
		what   string
		depths []int
	}
	for _, depth := range []int{1, 2} {
		for _, f := range rforms {
			var sets []string
			for h := range f.t.holes {
				sets = append(sets, strconv.Itoa(h))
			}
			if depth == 1 || tier == engine.Thorough {
				for h := range f.t.holes {
					for g := h + 1; g < len(f.t.holes); g++ {
						sets = append(sets, fmt.Sprintf("%d+%d", h, g))
					}
				}
				sets = append(sets, "all")
			}
			for _, ps := range sets {
				for _, c := range rCarriers {
					for _, m := range rModes {
						emit(fmt.Sprintf("r|%s|%s|%s|%d|%s", f.name, ps, c, depth, m))
					}
				}
			}
		}
	}
}

func reentrantBound(tier string) string {
	holes := 0
	for _, f := range rforms {
		holes += len(f.t.holes)
	}
	pairs := "every pair of positions and all positions at once at depth 1"
	if tier == engine.Thorough {
		pairs = "every pair of positions and all positions at once at depths 1 and 2"
	}
	return fmt.Sprintf("re-entrant family: %d multi-part forms with %d evaluated positions in the body of a function, the recursive call of that function in every single position at depth 1 and 2 (1 or 2 nested inner activations per evaluation of the position), %s; x %d carriers (%s) x %d modes (%s)",
		len(rforms), holes, pairs, len(rCarriers), strings.Join(rCarriers, ", "), len(rModes), strings.Join(rModes, ", "))
}

type rcase struct {
	f       *rform
	pos     map[int]bool
	posText string
	carrier string
	depth   int
	mode    string
}

func parseRcase(spec string) (*rcase, error) {
	parts := strings.Split(spec, "|")
	if len(parts) != 6 {
		return nil, fmt.Errorf("6 fields expected")
	}
	c := &rcase{f: rformByNam[parts[1]], pos: map[int]bool{}, posText: parts[2], carrier: parts[3], mode: parts[5]}
	if c.f == nil {
		return nil, fmt.Errorf("unknown form %s", parts[1])
	}
	switch parts[2] {
	case "all":
		for h := range c.f.t.holes {
			c.pos[h] = true
		}
	case "none":
	default:
		for _, p := range strings.Split(parts[2], "+") {
			h, err := strconv.Atoi(p)
			if err != nil || h < 0 || len(c.f.t.holes) <= h {
				return nil, fmt.Errorf("bad position %s", p)
			}
			c.pos[h] = true
		}
	}
	d, err := strconv.Atoi(parts[4])
	if err != nil || d < 0 || 3 < d {
		return nil, fmt.Errorf("bad depth")
	}
	c.depth = d
	okc, okm := false, false
	for _, x := range rCarriers {
		okc = okc || x == c.carrier
	}
	for _, x := range rModes {
		okm = okm || x == c.mode
	}
	if !okc || !okm {
		return nil, fmt.Errorf("bad carrier or mode")
	}
	return c, nil
}

func (c *rcase) spec() string {
	return fmt.Sprintf("r|%s|%s|%s|%d|%s", c.f.name, c.posText, c.carrier, c.depth, c.mode)
}

// build renders the case. prefix makes the function names unique to the run.
func (c *rcase) build(prefix string) (prog *node, names []string) {
	name := prefix + "n1"
	helper := prefix + "n2"
	names = []string{name}
	nm1 := nList(nSym("-"), nSym("n"), nInt(1))
	call := func(arg *node) *node {
		switch c.carrier {
		case "lambda-in-variable":
			return nList(nSym("funcall"), nSym("f"), arg)
		case "defun-through-designator":
			return nList(nSym("funcall"), &node{kind: 'l', l: []*node{nSym("function"), nSym(name)}, short: '#'}, arg)
		case "defun-indirect":
			return nList(nSym(helper), arg)
		}
		return nList(nSym(name), arg)
	}
	leaves := 0
	leaf := func(h *hole) *node {
		leaves++
		n := int64(leaves)
		var v *node
		switch h.kind {
		case 't':
			v = nSym("t")
		case 'f', 'n':
			v = nSym("nil")
		case 'c':
			v = nInt(2)
		case '0', '1', '2', '3', '4', '5', '6', '7', '8', '9':
			v = nInt(int64(h.kind - '0'))
		case 'l':
			v = nList(nSym("list"), nInt(n), nSym("n"))
		default:
			v = nList(nSym("+"), nInt(n), nList(nSym("*"), nInt(100), nSym("n")))
		}
		return nList(nSym("tr"), nQuote(nSym(fmt.Sprintf("k%d", n))), v)
	}
	hi := 0
	var copyNode func(n *node) *node
	copyNode = func(n *node) *node {
		switch n.kind {
		case 's':
			if strings.HasPrefix(n.s, "?") {
				h := c.f.t.holes[hi]
				re := c.pos[hi]
				hi++
				l := leaf(h)
				if re {
					return nList(nSym("progn"),
						nList(nSym("if"), nList(nSym("<"), nInt(0), nSym("n")),
							nList(nSym("setq"), nSym("r"), nList(nSym("cons"), call(nm1), nSym("r")))),
						l)
				}
				return l
			}
			return n
		case 'l':
			if 0 < len(n.l) && n.l[0].isSym("quote") {
				return n
			}
			cp := &node{kind: 'l', short: n.short, l: make([]*node, len(n.l))}
			for i, e := range n.l {
				cp.l[i] = copyNode(e)
			}
			return cp
		}
		return n
	}
	form := copyNode(c.f.t.root)
	body := []*node{
		nList(nSym("tr"), nQuote(nSym("in")), nSym("n")),
		nList(nSym("let"), nList(nList(nSym("r"), nSym("nil"))), nList(nSym("list"), nSym("n"), form, nSym("r"))),
	}
	top := func(d int) *node { return call(nInt(int64(d))) }
	var last *node
	switch c.mode {
	case "cold":
		last = top(c.depth)
	case "warm-plain":
		last = nList(nSym("list"), top(0), top(c.depth))
	default:
		last = nList(nSym("list"), top(c.depth), top(c.depth))
	}
	if c.carrier == "lambda-in-variable" {
		lam := append([]*node{nSym("lambda"), nList(nSym("n"))}, body...)
		prog = nList(nSym("let"), nList(nList(nSym("f"), nSym("nil"))),
			nList(nSym("setq"), nSym("f"), nList(lam...)), last)
		return prog, nil
	}
	def := append([]*node{nSym("defun"), nSym(name), nList(nSym("n"))}, body...)
	forms := []*node{nSym("let"), nList(), nList(def...)}
	if c.carrier == "defun-indirect" {
		forms = append(forms, nList(nSym("defun"), nSym(helper), nList(nSym("m")), nList(nSym(name), nSym("m"))))
		names = append(names, helper)
	}
	forms = append(forms, last)
	return nList(forms...), names
}

// judgeNode runs one ready-made program on the reference and on slip.
func judgeNode(prog *node, names []string, alts [][]string, globalsOK bool) (v verdict) {
	v.text = prog.String()
	r := newRef("", refBudgetSteps)
	r.globalsOK = globalsOK
	want, rerr := r.run([]*node{prog})
	v.hits = r.hits
	v.refSteps = r.steps
	if rerr != "" {
		v.skip = rerr
		return
	}
	v.want = showVal(want)
	v.wantTr = r.trace
	v.got = runSlip(v.text, slipLimit(r.steps))
	for _, nm := range names {
		forgetFunction(nm)
	}
	switch {
	case v.got.runaway:
		v.kind = "runaway"
	case v.got.err != nil && v.got.err.GoFault:
		v.kind = "go-fault"
	case v.got.err != nil:
		v.kind = "error:" + v.got.err.Class
	case !sameTrace(v.wantTr, v.got.trace):
		v.kind = traceKind(v.wantTr, v.got.trace)
	case v.want != v.got.val:
		v.kind = "value"
	default:
		v.ok = true
	}
	if !v.ok && v.got.err == nil {
		// outcomes that are accepted besides the language definition's (rule S2): each alternative is a set of
		// reference switches (see ref.keep); the outcome must equal that of the reference with one of them
		for _, alt := range alts {
			ar := newRef("", refBudgetSteps)
			ar.globalsOK = globalsOK
			ar.keep = map[string]bool{}
			for _, k := range alt {
				ar.keep[k] = true
			}
			if av, aerr := ar.run([]*node{prog}); aerr == "" && showVal(av) == v.got.val && sameTrace(ar.trace, v.got.trace) {
				v.ok, v.lenient, v.kind = true, true, ""
				v.acceptedAs = strings.Join(alt, "+")
				break
			}
		}
	}
	return
}

func (c *rcase) judge(prefix string) verdict {
	prog, names := c.build(prefix)
	return judgeNode(prog, names, nil, false)
}

var rBaseCache = map[string]*verdict{}

// variant judges (and caches per process) a simpler variant of a failing case.
func (c *rcase) variant(posText, carrier string, depth int, mode string) *verdict {
	vc, err := parseRcase(fmt.Sprintf("r|%s|%s|%s|%d|%s", c.f.name, posText, carrier, depth, mode))
	if err != nil {
		return &verdict{ok: true}
	}
	key := vc.spec()
	if v, has := rBaseCache[key]; has {
		return v
	}
	v := vc.judge(fmt.Sprintf("c01rv%x", engine.Hash64(key)))
	rBaseCache[key] = &v
	return &v
}

func (c *rcase) classes(posText string) string {
	if posText == "all" {
		return "every-position"
	}
	var cs []string
	for _, p := range strings.Split(posText, "+") {
		h, _ := strconv.Atoi(p)
		cs = append(cs, c.f.t.holes[h].class)
	}
	sort.Strings(cs)
	return strings.Join(cs, "+")
}

func execReentrant(spec string) (res engine.Result) {
	c, err := parseRcase(spec)
	if err != nil {
		res.Fail("harness:bad-spec", spec+": "+err.Error())
		return
	}
	v := c.judge(fmt.Sprintf("c01r%x", engine.Hash64(spec)))
	if v.skip != "" {
		if strings.HasPrefix(v.skip, "ref-error") {
			res.Fail("harness:generator-produced-ill-typed-program", v.text+" :: "+v.skip)
			return
		}
		res.Hit("skipped:" + v.skip)
		res.Outcome = "skipped:" + v.skip
		return
	}
	res.Nontrivial = true
	res.Hit("reentrant:case")
	if 0 < v.hits["recursive-call"] {
		res.Hit("reentrant:form-entered-again-while-active")
	}
	res.Hit("reentrant:carrier=" + c.carrier)
	res.Hit("reentrant:mode=" + c.mode)
	res.Hit(fmt.Sprintf("reentrant:depth=%d", c.depth))
	for h := range c.pos {
		res.Hit("reentrant:at=" + c.f.t.holes[h].class)
	}
	if 1 < len(c.pos) {
		res.Hit("reentrant:several-positions")
	}
	if v.got.err != nil {
		res.Outcome = "err:" + v.got.err.Class + "|" + clip(v.got.trace)
	} else {
		res.Outcome = v.got.val + "|" + clip(v.got.trace)
	}
	if v.ok {
		return
	}
	detail := v.describe()
	// 1. the form fails in a function body without any recursion: not a matter of re-entrancy
	if pv := c.variant("none", "defun", 0, "cold"); !pv.ok && pv.skip == "" {
		res.Fail(fmt.Sprintf("reentrant form=%s without-recursion kind=%s", c.f.name, pv.kind), pv.describe()+" [found in "+spec+"]")
		return
	}
	// 2. several positions: a single one of them that fails alone names the failure
	posText := c.posText
	if 1 < len(c.pos) {
		var hs []int
		for h := range c.pos {
			hs = append(hs, h)
		}
		sort.Ints(hs)
		for _, h := range hs {
			if sv := c.variant(strconv.Itoa(h), c.carrier, c.depth, c.mode); !sv.ok && sv.skip == "" {
				posText = strconv.Itoa(h)
				detail = sv.describe() + " [found in " + spec + "]"
				v = *sv
				break
			}
		}
	}
	// 3. carrier, depth and mode are part of the signature only when the failure needs them
	extra := ""
	if c.carrier != "defun" || c.depth != 1 || c.mode != "cold" {
		if bv := c.variant(posText, "defun", 1, "cold"); !bv.ok && bv.skip == "" {
			v = *bv
			detail = bv.describe() + " [found in " + spec + "]"
		} else {
			if cv := c.variant(posText, c.carrier, 1, "cold"); c.carrier != "defun" && !cv.ok && cv.skip == "" {
				extra = " carrier=" + c.carrier
			} else if dv := c.variant(posText, "defun", c.depth, "cold"); c.depth != 1 && !dv.ok && dv.skip == "" {
				extra = fmt.Sprintf(" depth=%d", c.depth)
			} else if mv := c.variant(posText, "defun", 1, c.mode); c.mode != "cold" && !mv.ok && mv.skip == "" {
				extra = " mode=" + c.mode
			} else {
				extra = fmt.Sprintf(" carrier=%s depth=%d mode=%s", c.carrier, c.depth, c.mode)
			}
		}
	}
	res.Fail(fmt.Sprintf("reentrant form=%s at=%s%s kind=%s", c.f.name, c.classes(posText), extra, v.kind), detail)
	return
}
