//go:build verif

package c10

import (
	"testing"
)

func BenchmarkExec(b *testing.B) {
	spec := `bfs:["cfg:t1b","d:p:fixnum","d:w:integer","c:f","d:a:real","c:B","r:p:fixnum","d:b:t"]`
	for i := 0; i < b.N; i++ {
		r := exec(spec)
		if r.Key == "" {
			b.Fatal("no key")
		}
	}
}
