//go:build verif

package c05

import (
	"fmt"
	"math/big"
	"strings"

	"github.com/ohler55/slip"

	"verif/engine"
	"verif/lisp"
)

// The call-site family (round 8).
//
// Every other family evaluates one operation ONCE, from freshly read source. A result that lives in storage owned by
// the function object of the call site (a big.Int kept as a field "to save an allocation"), or an operand that is
// altered only when the result of an earlier evaluation of the SAME site is handed back in, is invisible to that.
// Here one call site - the body of one lambda - is evaluated twice and the first result is looked at again:
//
//	(let* ((f (lambda (x y) (OP x y)))  r1 = (f a1 b1)  r2 = (f a2 b2)  r3 = (f r1 b2)) ...)
//
// Oracle (model-free, so that what a single evaluation gets wrong - the listed findings of the other families - is
// not reported again): r1 looked at after the later calls, r2 and r3 must each be what ONE evaluation of a fresh
// copy of the form gives for the same operands (same value, same representation class, same outcome class when it
// is an error), and the operand objects must still hold their values. Exhaustive inside the bound: operators x first
// operand pairs over the site grid x second operand pairs.

var siteGridText = []string{"1", "-1", "3", "4611686018427387904", "9223372036854775807", "-9223372036854775808",
	"18446744073709551616", "18446744073709551617", "-18446744073709551616", "1267650600228229401496703205376",
	"1/2", "-2/3", "18446744073709551617/3"}

var siteSecond = [][2]string{{"3", "5"}, {"18446744073709551616", "18446744073709551617"}, {"1/2", "-2/3"}, {"-1267650600228229401496703205376", "3"}}

var siteShifts = []string{"0", "1", "64", "70", "-1", "-70"}
var siteExpts = []string{"0", "2", "3", "70"}

func siteBinOps() []string {
	ops := append([]string{}, binOps...)
	ops = append(ops, bitBinOps...)
	ops = append(ops, booleOps...)
	return ops
}

func isRatioText(s string) bool { return strings.Contains(s, "/") }

func enumerateSite(tier string, emit func(string)) {
	for _, op := range siteBinOps() {
		io := intOnly[op] || isBitBin(op)
		for _, a1 := range siteGridText {
			for _, b1 := range siteGridText {
				if io && (isRatioText(a1) || isRatioText(b1)) {
					continue
				}
				for _, s := range siteSecond {
					if io && (isRatioText(s[0]) || isRatioText(s[1])) {
						continue
					}
					emit("s|" + op + "|" + a1 + "|" + b1 + "|" + s[0] + "|" + s[1])
				}
			}
		}
	}
	for _, a1 := range siteGridText {
		if isRatioText(a1) {
			continue
		}
		for _, s1 := range siteShifts {
			for _, s2 := range siteShifts {
				emit("s|ash|" + a1 + "|" + s1 + "|3|" + s2)
				emit("s|ash|" + a1 + "|" + s1 + "|-18446744073709551617|" + s2)
			}
		}
	}
	for _, a1 := range siteGridText {
		for _, e1 := range siteExpts {
			for _, e2 := range siteExpts {
				emit("s|expt|" + a1 + "|" + e1 + "|3|" + e2)
				emit("s|expt|" + a1 + "|" + e1 + "|-2/3|" + e2)
			}
		}
	}
	for _, op := range append(append([]string{}, unOps...), "logcount", "integer-length") {
		for _, a1 := range siteGridText {
			for _, a2 := range []string{"3", "18446744073709551616", "1/2", "-1267650600228229401496703205376"} {
				emit("s1|" + op + "|" + a1 + "|" + a2)
			}
		}
	}
}

func siteCaseCount() (n int) {
	enumerateSite("", func(string) { n++ })
	return
}

// outcome of one evaluation, reduced to what must agree
func siteOutcome(val slip.Object, err *lisp.Err) string {
	if err != nil {
		if err.GoFault {
			return "go-fault"
		}
		return "error:" + err.Class
	}
	return lisp.Show(val)
}

func execSite(parts []string) (res engine.Result) {
	unary := parts[0] == "s1"
	op := parts[1]
	var src, params string
	var first, second []*big.Rat
	if unary {
		if len(parts) != 4 {
			res.Fail("harness:bad-spec", strings.Join(parts, "|"))
			return
		}
		first = []*big.Rat{parseRat(parts[2])}
		second = []*big.Rat{parseRat(parts[3])}
		_, src = expected1(op, first[0])
		params = "(x)"
	} else {
		if len(parts) != 6 {
			res.Fail("harness:bad-spec", strings.Join(parts, "|"))
			return
		}
		first = []*big.Rat{parseRat(parts[2]), parseRat(parts[3])}
		second = []*big.Rat{parseRat(parts[4]), parseRat(parts[5])}
		src = srcFor2(op)
		params = "(x y)"
	}
	if src == "" {
		res.Outcome = "skip"
		return
	}
	lam := "(lambda " + params + " " + src + ")"
	args := func(names ...string) string { return strings.Join(names, " ") }
	// one evaluation of a fresh copy of the form, operands built afresh
	alone := func(ops []*big.Rat) string {
		sc := slip.NewScope()
		var names []string
		for i, r := range ops {
			n := fmt.Sprintf("p%d", i)
			sc.Let(slip.Symbol(n), toObj(r))
			names = append(names, n)
		}
		val, err := lisp.EvalIn(sc, "(funcall "+lam+" "+args(names...)+")")
		return siteOutcome(val, err)
	}
	want1, want2 := alone(first), alone(second)
	// the same site twice, then with its own first result as operand
	sc := slip.NewScope()
	var objs []slip.Object
	var all []*big.Rat
	var n1, n2 []string
	for i, r := range first {
		n := fmt.Sprintf("a%d", i)
		o := toObj(r)
		sc.Let(slip.Symbol(n), o)
		objs, all, n1 = append(objs, o), append(all, r), append(n1, n)
	}
	for i, r := range second {
		n := fmt.Sprintf("b%d", i)
		o := toObj(r)
		sc.Let(slip.Symbol(n), o)
		objs, all, n2 = append(objs, o), append(all, r), append(n2, n)
	}
	chainArgs := append([]string{"r1"}, n2[1:]...)
	prog := "(let* ((f " + lam + ") (r1 (ignore-errors (funcall f " + args(n1...) + "))) (r2 (ignore-errors (funcall f " + args(n2...) + ")))" +
		" (r3 (if (numberp r1) (ignore-errors (funcall f " + args(chainArgs...) + ")) 'skipped))) (list r1 r2 r3))"
	val, err := lisp.EvalIn(sc, prog)
	sigArgs := class(first[0])
	if !unary {
		sigArgs += "," + class(first[1])
	}
	sig := func(kind string) string { return fmt.Sprintf("site op=%s first-args=%s kind=%s", op, sigArgs, kind) }
	desc := fmt.Sprintf("%s with first operands %v, second operands %v", prog, parts[2:2+len(first)], parts[2+len(first):])
	if err != nil {
		res.Fail(sig("program-failed:"+siteOutcome(nil, err)), desc+" => "+err.String())
		return
	}
	l, ok := val.(slip.List)
	if !ok || len(l) != 3 {
		res.Fail(sig("program-failed:shape"), desc+" => "+lisp.Show(val))
		return
	}
	res.Hit("site-case")
	got1, got2 := lisp.Show(l[0]), lisp.Show(l[1])
	isErr := func(w string) bool { return strings.HasPrefix(w, "error:") || w == "go-fault" }
	// ignore-errors turns an error into nil: an evaluation that signals alone must give nil here
	cmp := func(which, got, want string) {
		switch {
		case isErr(want):
			if got != "nil" {
				res.Fail(sig(which+"-value-where-one-evaluation-signals"), fmt.Sprintf("%s => %s; one evaluation of a fresh copy of the form gives %s", desc, lisp.Show(val), want))
			}
		case got != want:
			res.Fail(sig(which+"-differs-from-one-evaluation"), fmt.Sprintf("%s => %s; one evaluation of a fresh copy of the form gives %s for %s", desc, lisp.Show(val), want, which))
		}
	}
	cmp("first-result-after-later-calls", got1, want1)
	cmp("second-result", got2, want2)
	if !isErr(want1) {
		if r1, _, _ := objRat(l[0]); r1 != nil {
			if c := class(r1); c == "bignum" || c == "ratio" {
				res.Hit("site-first-result-held-by-reference")
				res.Nontrivial = true
			}
			chain := append([]*big.Rat{r1}, second[1:]...)
			if got3 := lisp.Show(l[2]); got3 != "skipped" {
				res.Hit("site-result-handed-back-as-operand")
				cmp("result-of-the-call-given-the-first-result", got3, alone(chain))
			}
		}
	}
	for i, r := range all {
		or, _, _ := objRat(objs[i])
		if or == nil || or.Cmp(r) != 0 {
			res.Fail(sig("operand-mutated"), fmt.Sprintf("%s: operand %d was %s, now %s", desc, i, ratText(r), lisp.Show(objs[i])))
		}
	}
	res.Outcome = lisp.Show(val)
	return
}
