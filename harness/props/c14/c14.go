// Package c14: sequence functions and their keyword arguments.
package c14

import (
	"strings"

	"verif/engine"
	"verif/lisp"
)

func init() {
	engine.Register(&engine.Prop{
		ID:        "C14",
		Level:     "exploration",
		Enumerate: func(tier string, emit func(string)) {},
		Exec:      exec,
	})
}

func exec(spec string) (res engine.Result) {
	if strings.HasPrefix(spec, "probe|") {
		v, err := lisp.Eval(spec[6:])
		if err != nil {
			res.Outcome = "ERR " + err.String()
		} else {
			res.Outcome = lisp.Show(v)
		}
		return
	}
	return
}
