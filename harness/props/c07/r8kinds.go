package c07

// r8kinds.go (round 8): the context kinds that close the gaps listed in the claim's note.
//
//  1. hof-<caller> / hofn-<caller> / call-by-<who>: the slot sits in the body of a function that is CALLED BY a built-in
//     higher-order function (or by the body of a user function / flavors method / generic-function method that is not
//     lexically around it), as an anonymous lambda (hof-, positions c1 c2 c3 = the slot runs on the 1st / 2nd / 3rd
//     call) or as a named function defined right in front of the call and passed as #'name (hofn-). Every block, tag
//     and function block around the call is visible in the body: these are closures.
//  2. v-<place>: the slot sits in a position that is NOT a body position: the value form of the, time, nth-value,
//     multiple-value-list/-call/-setq, values, setq, setf, an argument of a function call (the second of three), an
//     init form of let / let* (the second of three), a test form of cond / if / when / unless, the key form of case /
//     typecase, the list, count, init, step, end-test and result forms of dolist / dotimes / do / do*, the value form
//     of another return-from, the forms of a with- form that name what it acquires.
//  3. wof-<mode>: with-open-file for :output / :io with every :if-exists mode the repository implements; the stream is
//     kept, written to before and after the slot, and examined after the program.
//
// They are kinds of the same nesting enumeration as the kinds of c07.go / newkinds.go, so the exits, targets,
// cleanups, reductions and signatures of the earlier rounds apply to them unchanged; their chains are enumerated by
// r8enum.go under spec prefixes of their own (hof| val| rel| cls|) and never by the enumeration of the earlier rounds.

import (
	"fmt"
	"os"
	"path/filepath"
	"strconv"
	"strings"

	"github.com/ohler55/slip"

	"verif/lisp"
	"verif/ref/eval"
)

// ---------------------------------------------------------------- callers

type hofSpec struct {
	name      string
	params    []string                            // parameters of the called function
	deflt     func(p []eval.Sym) eval.Node        // the value the function yields when it ends normally (keeps the caller going)
	call      func(fn eval.Node, L int) eval.Node // the calling form
	calls     int                                 // calls made when nothing leaves early
	unordered bool                                // the number of calls after the K-th is not defined (sort) / the order is not (maphash)
	namedOnly bool                                // the caller takes a function NAME only (format ~/name/)
}

func sy(s string) eval.Sym { return eval.Sym(s) }
func in3() eval.Node       { return eval.Q(eval.L(eval.Int(1), eval.Int(2), eval.Int(3))) }
func fresh3() eval.Node    { return eval.L(sy("list"), eval.Int(3), eval.Int(1), eval.Int(2)) }
func alist3() eval.Node {
	return eval.Q(eval.L(eval.L(eval.Int(1), eval.Int(1)), eval.L(eval.Int(2), eval.Int(2)), eval.L(eval.Int(3), eval.Int(3))))
}
func fnq(name string) eval.Node { return eval.L(sy("function"), sy(name)) }

func constDeflt(n eval.Node) func([]eval.Sym) eval.Node {
	return func([]eval.Sym) eval.Node { return n }
}
func lastParam(p []eval.Sym) eval.Node { return p[len(p)-1] }

func simple(name string, deflt func([]eval.Sym) eval.Node, seq func() eval.Node) hofSpec {
	return hofSpec{name: name, params: []string{"x"}, deflt: deflt, calls: 3,
		call: func(fn eval.Node, L int) eval.Node { return eval.L(sy(name), fn, seq()) }}
}

// keyed: (name ITEM... SEQ :test FN) or (... :key FN)
func keyed(kind, fname, kw string, lead []eval.Node, seq func() eval.Node) hofSpec {
	h := hofSpec{name: kind, calls: 3}
	if kw == ":test" {
		h.params = []string{"a", "x"}
		h.deflt = constDeflt(nil)
	} else {
		h.params = []string{"x"}
		h.deflt = lastParam
	}
	h.call = func(fn eval.Node, L int) eval.Node {
		f := eval.List{sy(fname)}
		f = append(f, lead...)
		return append(f, seq(), sy(kw), fn)
	}
	return h
}

var tNode = eval.Node(sy("t"))

var hofSpecs = func() []hofSpec {
	i99 := []eval.Node{eval.Int(99)}
	l := []hofSpec{
		simple("mapcar", lastParam, in3),
		simple("mapc", lastParam, in3),
		simple("maplist", constDeflt(eval.Int(0)), in3),
		simple("mapl", constDeflt(nil), in3),
		simple("mapcan", func(p []eval.Sym) eval.Node { return eval.L(sy("list"), p[0]) }, in3),
		simple("mapcon", constDeflt(eval.L(sy("list"), eval.Int(0))), in3),
		{name: "map-list", params: []string{"x"}, deflt: lastParam, calls: 3,
			call: func(fn eval.Node, L int) eval.Node { return eval.L(sy("map"), eval.Q(sy("list")), fn, in3()) }},
		{name: "map-nil", params: []string{"x"}, deflt: lastParam, calls: 3,
			call: func(fn eval.Node, L int) eval.Node { return eval.L(sy("map"), nil, fn, in3()) }},
		{name: "map-into", params: []string{"x"}, deflt: lastParam, calls: 3,
			call: func(fn eval.Node, L int) eval.Node {
				return eval.L(sy("map-into"), eval.L(sy("list"), eval.Int(0), eval.Int(0), eval.Int(0)), fn, in3())
			}},
		simple("every", constDeflt(tNode), in3),
		simple("some", constDeflt(nil), in3),
		simple("notany", constDeflt(nil), in3),
		simple("notevery", constDeflt(tNode), in3),
		{name: "reduce", params: []string{"a", "x"}, deflt: lastParam, calls: 3,
			call: func(fn eval.Node, L int) eval.Node {
				return eval.L(sy("reduce"), fn, eval.Q(eval.L(eval.Int(0), eval.Int(1), eval.Int(2), eval.Int(3))))
			}},
		{name: "reduce-init", params: []string{"a", "x"}, deflt: lastParam, calls: 3,
			call: func(fn eval.Node, L int) eval.Node {
				return eval.L(sy("reduce"), fn, in3(), sy(":initial-value"), eval.Int(0))
			}},
		simple("find-if", constDeflt(nil), in3),
		simple("position-if", constDeflt(nil), in3),
		simple("count-if", constDeflt(nil), in3),
		simple("remove-if", constDeflt(nil), in3),
		simple("member-if", constDeflt(nil), in3),
		simple("assoc-if", constDeflt(nil), alist3),
		keyed("assoc-test", "assoc", ":test", i99, alist3),
		keyed("assoc-key", "assoc", ":key", i99, alist3),
		keyed("member-test", "member", ":test", i99, in3),
		keyed("find-test", "find", ":test", i99, in3),
		keyed("find-key", "find", ":key", i99, in3),
		keyed("position-test", "position", ":test", i99, in3),
		keyed("count-key", "count", ":key", i99, in3),
		keyed("remove-test", "remove", ":test", i99, in3),
		keyed("remove-key", "remove", ":key", i99, in3),
		keyed("substitute-test", "substitute", ":test", []eval.Node{eval.Int(0), eval.Int(99)}, in3),
		keyed("substitute-key", "substitute", ":key", []eval.Node{eval.Int(0), eval.Int(99)}, in3),
	}
	for _, srt := range []string{"sort", "stable-sort"} {
		srt := srt
		l = append(l,
			hofSpec{name: srt + "-pred", params: []string{"a", "x"}, calls: 2, unordered: true,
				deflt: func(p []eval.Sym) eval.Node { return eval.L(sy("<"), p[0], p[1]) },
				call:  func(fn eval.Node, L int) eval.Node { return eval.L(sy(srt), fresh3(), fn) }},
			hofSpec{name: srt + "-key", params: []string{"x"}, calls: 2, unordered: true, deflt: lastParam,
				call: func(fn eval.Node, L int) eval.Node { return eval.L(sy(srt), fresh3(), fnq("<"), sy(":key"), fn) }})
	}
	l = append(l,
		hofSpec{name: "maphash", params: []string{"a", "x"}, deflt: constDeflt(nil), calls: 3, unordered: true,
			call: func(fn eval.Node, L int) eval.Node { return eval.L(sy("maphash"), fn, lv("ht", L)) }},
		hofSpec{name: "apply-mapcar", params: []string{"x"}, deflt: lastParam, calls: 3,
			call: func(fn eval.Node, L int) eval.Node {
				return eval.L(sy("apply"), fnq("mapcar"), eval.L(sy("list"), fn, in3()))
			}},
		hofSpec{name: "funcall-mapcar", params: []string{"x"}, deflt: lastParam, calls: 3,
			call: func(fn eval.Node, L int) eval.Node { return eval.L(sy("funcall"), fnq("mapcar"), fn, in3()) }},
		hofSpec{name: "funcall-every", params: []string{"x"}, deflt: constDeflt(tNode), calls: 3,
			call: func(fn eval.Node, L int) eval.Node { return eval.L(sy("funcall"), fnq("every"), fn, in3()) }},
		hofSpec{name: "format-call", params: []string{"s", "x", "c", "at"}, deflt: constDeflt(nil), calls: 1, namedOnly: true,
			call: nil /* built in buildHOF: the control string holds the function's name */},
	)
	return l
}()

// callBySpecs: the function is called by the body of a user function, a flavors method or a generic-function method
// that is defined at top level (so it is not lexically around the closure); one call.
var callBySpecs = []string{"call-by-defun", "call-by-method", "call-by-generic"}

var hofByKind = map[string]*hofSpec{}

// ---------------------------------------------------------------- kinds

var (
	hofLambdaKinds []kindInfo // hof-<caller>: positions c1..cN
	hofNamedKinds  []kindInfo // hofn-<caller>: one position
	callByKinds    []kindInfo
	valueKinds     []kindInfo
	wofKinds       []kindInfo
	r8KindSet      = map[string]bool{}
	r8Canon        = map[string]string{}
	// r8Kinds is part of the initialiser of `kinds` (c07.go), so all of the tables above are filled before any init()
	r8Kinds = buildR8Kinds()
)

var valueKindNames = []string{
	"v-the", "v-time", "v-nth-value", "v-mv-list", "v-mv-call", "v-mv-setq", "v-values", "v-mvb-values",
	"v-setq", "v-setf-var", "v-setf-car",
	"v-arg-builtin", "v-arg-user", "v-arg-funcall", "v-arg-apply", "v-arg-lambda", "v-arg-send",
	"v-let-init", "v-let*-init", "v-prog-init",
	"v-cond-test", "v-if-test", "v-when-test", "v-unless-test", "v-case-key", "v-typecase-key",
	"v-dolist-list", "v-dolist-result", "v-dotimes-count", "v-dotimes-result",
	"v-do-init", "v-do-step", "v-do-end", "v-do-result", "v-do*-init", "v-do*-step",
	"v-return-value", "v-progv-values",
	"v-wof-path", "v-mutex-form", "v-wifs-string", "v-wos-stream",
}

// loopHeaderKinds: value positions in the header of a form that establishes a nil block. Which block a (return)
// in such a header form belongs to is not this property's question, so no (return) crosses them.
var loopHeaderKinds = map[string]bool{"v-dolist-list": true, "v-dolist-result": true, "v-dotimes-count": true, "v-dotimes-result": true,
	"v-do-init": true, "v-do-step": true, "v-do-end": true, "v-do-result": true, "v-do*-init": true, "v-do*-step": true, "v-prog-init": true}

// wofModes: with-open-file variants (direction, if-exists, if-does-not-exist, does the file exist beforehand)
type wofMode struct {
	name    string
	options []string
	exists  bool
}

var wofModes = []wofMode{
	{"wof-supersede", []string{":direction", ":output", ":if-exists", ":supersede"}, true},
	{"wof-append", []string{":direction", ":output", ":if-exists", ":append"}, true},
	{"wof-overwrite", []string{":direction", ":output", ":if-exists", ":overwrite"}, true},
	{"wof-rename", []string{":direction", ":output", ":if-exists", ":rename"}, true},
	{"wof-create", []string{":direction", ":output", ":if-does-not-exist", ":create"}, false},
	{"wof-io", []string{":direction", ":io", ":if-exists", ":overwrite"}, true},
}

var wofByKind = map[string]*wofMode{}

const wofInit = "c07-init\n"

func buildR8Kinds() (all []kindInfo) {
	for i := range hofSpecs {
		h := &hofSpecs[i]
		var pos []string
		for k := 1; k <= h.calls; k++ {
			pos = append(pos, "c"+strconv.Itoa(k))
		}
		canon := pos[len(pos)/2]
		if !h.namedOnly {
			hofLambdaKinds = append(hofLambdaKinds, kindInfo{"hof-" + h.name, "hof-" + h.name, pos})
			hofByKind["hof-"+h.name] = h
			r8Canon["hof-"+h.name] = canon
		}
		hofNamedKinds = append(hofNamedKinds, kindInfo{"hofn-" + h.name, "hofn-" + h.name, []string{canon}})
		hofByKind["hofn-"+h.name] = h
		r8Canon["hofn-"+h.name] = canon
	}
	for _, n := range callBySpecs {
		callByKinds = append(callByKinds, kindInfo{n, n, []string{"c1"}})
		r8Canon[n] = "c1"
	}
	for _, n := range valueKindNames {
		valueKinds = append(valueKinds, kindInfo{n, n, []string{"v"}})
		r8Canon[n] = "v"
	}
	for i := range wofModes {
		wofKinds = append(wofKinds, kindInfo{wofModes[i].name, wofModes[i].name, bodyPos})
		wofByKind[wofModes[i].name] = &wofModes[i]
		r8Canon[wofModes[i].name] = "m"
	}
	for _, l := range [][]kindInfo{hofLambdaKinds, hofNamedKinds, callByKinds, valueKinds, wofKinds} {
		all = append(all, l...)
	}
	for _, k := range all {
		r8KindSet[k.name] = true
	}
	return
}

func isHOF(k *kindInfo) bool {
	return strings.HasPrefix(k.name, "hof-") || strings.HasPrefix(k.name, "hofn-") || strings.HasPrefix(k.name, "call-by-")
}
func isNamedHOF(k *kindInfo) bool  { return strings.HasPrefix(k.name, "hofn-") }
func isValueKind(k *kindInfo) bool { return strings.HasPrefix(k.name, "v-") }
func isWOF(k *kindInfo) bool       { return wofByKind[k.name] != nil }

func hasKind(ctxs []ctx, pred func(*kindInfo) bool) bool {
	for _, c := range ctxs {
		if pred(c.kind) {
			return true
		}
	}
	return false
}

// callIndex: the K of position cK.
func callIndex(pos string) int {
	n, _ := strconv.Atoi(strings.TrimPrefix(pos, "c"))
	return n
}

// ---------------------------------------------------------------- construction

func (b *built) markNil(owner int, role string) eval.Node {
	id := len(b.markers)
	b.markers = append(b.markers, marker{owner, role})
	return eval.L(eval.Sym("tr"), eval.Int(id), nil)
}

// slotWithPending builds the slot and returns the statements to put there (a defun-in / hofn- child wants its
// definition right in front of the slot).
func (b *built) slotWithPending(level int) []eval.Node {
	slot := b.build(level + 1)
	stmts := append([]eval.Node(nil), b.pending...)
	b.pending = nil
	return append(stmts, slot)
}

// calledBody: the body of the function a caller calls. The slot runs on call K, a marker before (early) and after
// (late) tell how often the function is called, the last form is the value that keeps the caller going.
func (b *built) calledBody(level int, h *hofSpec, params []eval.Sym, calls int, deflt eval.Node) []eval.Node {
	K := callIndex(b.p.ctxs[level].pos)
	n := lv("n", level)
	var clauses eval.List
	if 1 < K {
		clauses = append(clauses, eval.L(eval.L(sy("<"), n, eval.Int(int64(K))), b.mark(level, "early", false)))
	}
	clauses = append(clauses, append(eval.List{eval.L(sy("eql"), n, eval.Int(int64(K)))}, b.slotWithPending(level)...))
	if K < calls || (h != nil && h.unordered) {
		clauses = append(clauses, eval.L(sy("t"), b.mark(level, "late", false)))
	}
	return []eval.Node{
		eval.L(sy("setq"), n, eval.L(sy("+"), n, eval.Int(1))),
		append(eval.List{sy("cond")}, clauses...),
		deflt,
	}
}

func symsOf(names []string, level int) (out []eval.Sym, list eval.List) {
	for _, n := range names {
		s := lv(n+"p", level)
		out = append(out, s)
		list = append(list, s)
	}
	return
}

func (b *built) buildHOF(level int) eval.Node {
	c := b.p.ctxs[level]
	if strings.HasPrefix(c.kind.name, "call-by-") {
		return b.buildCallBy(level)
	}
	h := hofByKind[c.kind.name]
	params, plist := symsOf(h.params, level)
	body := b.calledBody(level, h, params, h.calls, h.deflt(params))
	var fn eval.Node
	if isNamedHOF(c.kind) {
		name := b.fnName(level)
		b.fnNames = append(b.fnNames, name)
		b.pending = append(b.pending, form("defun", append([]eval.Node{sy(name), plist}, body...)...))
		fn = fnq(name)
		if h.namedOnly {
			return b.hideValue(level, eval.L(sy("format"), nil, eval.Str("~/"+name+"/"), eval.Int(1)))
		}
	} else {
		fn = form("lambda", append([]eval.Node{plist}, body...)...)
	}
	return b.hideValue(level, h.call(fn, level))
}

// hideValue: what a caller returns (the list mapcar builds, the element find-if finds, t or the value for some ...) is
// the subject of the sequence-function property, so the calling form is followed by a marker that gives the value.
func (b *built) hideValue(level int, call eval.Node) eval.Node {
	return eval.L(sy("progn"), call, b.mark(level, "after-call", true))
}

func (b *built) buildCallBy(level int) eval.Node {
	c := b.p.ctxs[level]
	params, plist := symsOf([]string{"x"}, level)
	fn := form("lambda", append([]eval.Node{plist}, b.calledBody(level, nil, params, 1, params[0])...)...)
	f := lv("f", level)
	inner := []eval.Node{b.mark(level, "caller-pre", false), eval.L(sy("funcall"), f, eval.Int(1)), b.mark(level, "caller-post", true)}
	switch c.kind.name {
	case "call-by-defun":
		name := b.fnName(level)
		b.fnNames = append(b.fnNames, name)
		b.forms = append(b.forms, form("defun", append([]eval.Node{sy(name), eval.L(f)}, inner...)...))
		return eval.L(sy(name), fn)
	case "call-by-method":
		fl := b.flavorName(level)
		b.flavors = append(b.flavors, fl)
		b.forms = append(b.forms, form("defflavor", sy(fl), nil, nil),
			form("defmethod", append([]eval.Node{eval.L(sy(fl), sy(":call")), eval.L(f)}, inner...)...))
		return eval.L(sy("send"), eval.L(sy("make-instance"), eval.Q(sy(fl))), sy(":call"), fn)
	default: // call-by-generic
		name := b.fnName(level)
		b.fnNames = append(b.fnNames, name)
		b.usesGeneric = true
		b.forms = append(b.forms, form("defmethod", append([]eval.Node{sy(name), eval.L(eval.L(lv("o", level), sy(b.genericClass())), f)}, inner...)...))
		return eval.L(sy(name), eval.L(sy("make-instance"), eval.Q(sy(b.genericClass()))), fn)
	}
}

// wofPath: the file of the with-open-file variant at `level`.
func (b *built) wofPath(level int) string {
	return filepath.Join(scratch(), fmt.Sprintf("w%d.txt", level+1))
}

func (b *built) buildWOF(level int) eval.Node {
	c := b.p.ctxs[level]
	m := wofByKind[c.kind.name]
	b.usesFile = true
	fs := lv("fs", level)
	head := eval.List{fs, eval.Str(b.wofPath(level))}
	for _, o := range m.options {
		head = append(head, sy(o))
	}
	stmts := []eval.Node{head, eval.L(sy("setq"), lv("keep", level), fs), eval.L(sy("write-string"), eval.Str("a"), fs)}
	stmts = append(stmts, b.body(level)...)
	if c.pos != "l" {
		stmts = append(stmts, eval.L(sy("write-string"), eval.Str("z"), fs))
	}
	return form("with-open-file", stmts...)
}

// buildValue: the slot in a value position. vpre = evaluated before the slot in the same form (not judged, S2);
// post / body / then / else / called / result = must not run once an exit has left the slot.
func (b *built) buildValue(level int) eval.Node {
	c := b.p.ctxs[level]
	L := level
	S := sy
	pre := func() eval.Node { return b.mark(L, "vpre", true) }
	post := func() eval.Node { return b.mark(L, "post", true) }
	slot := func() eval.Node {
		s := b.build(L + 1)
		if 0 < len(b.pending) { // a definition a child wants in front of it: there is no statement place here
			s = append(append(eval.List{S("progn")}, b.pending...), s)
			b.pending = nil
		}
		return s
	}
	then := func(role string) eval.Node { return b.mark(L, role, true) }
	switch c.kind.name {
	case "v-the":
		return eval.L(S("the"), S("t"), slot())
	case "v-time":
		return eval.L(S("time"), slot())
	case "v-nth-value":
		// index 1: (nth-value 0 x) of a single value is nil in slip (not this property's subject)
		return eval.L(S("nth-value"), eval.Int(1), slot())
	case "v-mv-list":
		return eval.L(S("multiple-value-list"), slot())
	case "v-mv-call":
		p := pre()
		return eval.L(S("multiple-value-call"), fnq("list"), p, slot(), post())
	case "v-mv-setq":
		return eval.L(S("multiple-value-setq"), eval.L(lv("vv", L), lv("ww", L)), slot())
	case "v-values":
		p := pre()
		return eval.L(S("nth-value"), eval.Int(0), eval.L(S("values"), p, slot(), post()))
	case "v-mvb-values":
		s := slot()
		return eval.L(S("multiple-value-bind"), eval.L(lv("bv", L), lv("bw", L)), s, then("body"))
	case "v-setq":
		p := pre()
		return eval.L(S("setq"), lv("vv", L), p, lv("ww", L), slot(), lv("uu", L), post())
	case "v-setf-var":
		return eval.L(S("setf"), lv("vv", L), slot())
	case "v-setf-car":
		return eval.L(S("setf"), eval.L(S("car"), lv("cc", L)), slot())
	case "v-arg-builtin":
		p := pre()
		return eval.L(S("list"), p, slot(), post())
	case "v-arg-user":
		name := b.fnName(L)
		b.fnNames = append(b.fnNames, name)
		b.forms = append(b.forms, form("defun", S(name), eval.L(S("a"), S("b"), S("c")), b.mark(L, "called", false), eval.L(S("list"), S("a"), S("b"), S("c"))))
		p := pre()
		return eval.L(S(name), p, slot(), post())
	case "v-arg-funcall":
		p := pre()
		return eval.L(S("funcall"), fnq("list"), p, slot(), post())
	case "v-arg-apply":
		p := pre()
		return eval.L(S("apply"), fnq("list"), p, slot(), eval.L(S("list"), post()))
	case "v-arg-lambda":
		lam := form("lambda", eval.L(S("a"), S("b"), S("c")), b.mark(L, "called", false), eval.L(S("list"), S("a"), S("b"), S("c")))
		p := pre()
		return eval.L(lam, p, slot(), post())
	case "v-arg-send":
		fl := b.flavorName(L)
		b.flavors = append(b.flavors, fl)
		b.forms = append(b.forms, form("defflavor", S(fl), nil, nil),
			form("defmethod", eval.L(S(fl), S(":m3")), eval.L(S("a"), S("b"), S("c")), b.mark(L, "called", false), eval.L(S("list"), S("a"), S("b"), S("c"))))
		p := pre()
		return eval.L(S("send"), eval.L(S("make-instance"), eval.Q(S(fl))), S(":m3"), p, slot(), post())
	case "v-let-init", "v-let*-init":
		p := pre()
		bind := eval.L(eval.L(lv("la", L), p), eval.L(lv("lb", L), slot()), eval.L(lv("lc", L), post()))
		return eval.L(S(strings.TrimSuffix(strings.TrimPrefix(c.kind.name, "v-"), "-init")), bind, then("body"))
	case "v-prog-init":
		s := slot()
		return eval.L(S("prog"), eval.L(eval.L(lv("la", L), s)), then("body"))
	case "v-cond-test":
		first := eval.L(b.markNil(L, "vpre"), then("other"))
		second := eval.L(slot(), then("then"))
		return eval.L(S("cond"), first, second, eval.L(S("t"), then("else")))
	case "v-if-test":
		s := slot()
		return eval.L(S("if"), s, then("then"), then("else"))
	case "v-when-test":
		s := slot()
		return eval.L(S("when"), s, then("then"))
	case "v-unless-test":
		s := slot()
		return eval.L(S("unless"), s, then("else"))
	case "v-case-key":
		s := slot()
		return eval.L(S("case"), s, eval.L(eval.Int(1), then("other")), eval.L(S("t"), then("then")))
	case "v-typecase-key":
		s := slot()
		return eval.L(S("typecase"), s, eval.L(S("string"), then("other")), eval.L(S("t"), then("then")))
	case "v-dolist-list":
		s := slot()
		return eval.L(S("dolist"), eval.L(lv("i", L), eval.L(S("progn"), s, eval.Q(eval.L(eval.Int(1), eval.Int(2)))), then("result")), then("body"))
	case "v-dolist-result":
		body := then("body")
		return eval.L(S("dolist"), eval.L(lv("i", L), eval.Q(eval.L(eval.Int(1), eval.Int(2))), slot()), body)
	case "v-dotimes-count":
		s := slot()
		return eval.L(S("dotimes"), eval.L(lv("i", L), eval.L(S("progn"), s, eval.Int(2)), then("result")), then("body"))
	case "v-dotimes-result":
		body := then("body")
		return eval.L(S("dotimes"), eval.L(lv("i", L), eval.Int(2), slot()), body)
	case "v-do-init", "v-do*-init", "v-do-step", "v-do*-step", "v-do-end", "v-do-result":
		head := "do"
		if strings.HasPrefix(c.kind.name, "v-do*") {
			head = "do*"
		}
		i := lv("i", L)
		init, step := eval.Node(eval.Int(0)), eval.Node(eval.L(S("+"), i, eval.Int(1)))
		endTest := eval.Node(eval.L(S(">="), i, eval.Int(2)))
		var s eval.Node
		var result []eval.Node
		switch {
		case strings.HasSuffix(c.kind.name, "-init"):
			s = slot()
			init = eval.L(S("progn"), s, eval.Int(0))
		case strings.HasSuffix(c.kind.name, "-step"):
			s = slot()
			step = eval.L(S("progn"), s, eval.L(S("+"), i, eval.Int(1)))
		case strings.HasSuffix(c.kind.name, "-end"):
			s = slot()
			endTest = eval.L(S("progn"), s, eval.L(S(">="), i, eval.Int(2)))
		}
		body := then("body")
		if strings.HasSuffix(c.kind.name, "-result") {
			p := pre()
			result = []eval.Node{p, slot(), post()}
		} else {
			result = []eval.Node{then("result")}
		}
		return eval.L(S(head), eval.L(eval.L(i, init, step)), append(eval.List{endTest}, result...), body)
	case "v-return-value":
		name := lv("rb", L)
		p := pre()
		return eval.L(S("block"), name, p, eval.L(S("return-from"), name, slot()), post())
	case "v-progv-values":
		s := slot()
		return eval.L(S("progv"), eval.Q(eval.L(lv("pv", L))), eval.L(S("list"), s), then("body"))
	case "v-wof-path":
		b.usesFile = true
		s := slot()
		head := eval.L(lv("fs", L), eval.L(S("progn"), s, eval.Str(b.path)), S(":direction"), S(":input"))
		return eval.L(S("with-open-file"), head, eval.L(S("setq"), lv("keep", L), lv("fs", L)), then("body"))
	case "v-mutex-form":
		s := slot()
		return eval.L(S("with-mutex-lock"), eval.L(S("progn"), s, lv("mx", L)), then("body"))
	case "v-wifs-string":
		s := slot()
		return eval.L(S("with-input-from-string"), eval.L(lv("is", L), eval.L(S("progn"), s, eval.Str("abc"))), then("body"))
	case "v-wos-stream":
		s := slot()
		return eval.L(S("with-open-stream"), eval.L(lv("ws", L), eval.L(S("progn"), s, eval.L(S("make-string-input-stream"), eval.Str("x")))), then("body"))
	}
	panic("unknown value kind " + c.kind.name)
}

// buildR8 returns the form of a context of one of the kinds of this file (nil: not one of them).
func (b *built) buildR8(level int) eval.Node {
	k := b.p.ctxs[level].kind
	switch {
	case isHOF(k):
		return b.buildHOF(level)
	case isValueKind(k):
		return b.buildValue(level)
	case isWOF(k):
		return b.buildWOF(level)
	}
	return nil
}

// ---------------------------------------------------------------- objects

var r8VarPrefixes = []string{"vv", "ww", "uu"}

// setupSlipR8 binds what the kinds of this file need in the scope the program runs in.
func setupSlipR8(scope *slip.Scope, b *built) string {
	p := b.p
	for i, c := range p.ctxs {
		k := c.kind
		switch {
		case isValueKind(k):
			for _, v := range r8VarPrefixes {
				scope.Let(slip.Symbol(lv(v, i)), nil)
			}
			if k.name == "v-setf-car" {
				scope.Let(slip.Symbol(lv("cc", i)), slip.List{slip.Fixnum(1)})
			}
		case k.name == "hof-maphash" || k.name == "hofn-maphash":
			ht, err := lisp.Eval("(let ((h (make-hash-table))) (setf (gethash 1 h) 1) (setf (gethash 2 h) 2) (setf (gethash 3 h) 3) h)")
			if err != nil {
				return "make-hash-table: " + err.String()
			}
			scope.Let(slip.Symbol(lv("ht", i)), ht)
		case k.name == "call-by-generic":
			if problem := prepareProcess(); problem != "" {
				return problem
			}
		case isWOF(k):
			path := b.wofPath(i)
			_ = os.MkdirAll(scratch(), 0o755)
			_ = os.Remove(path)
			_ = os.Remove(path + ".bak")
			if wofByKind[k.name].exists {
				if err := os.WriteFile(path, []byte(wofInit), 0o644); err != nil {
					return err.Error()
				}
			}
		}
	}
	if usesR8Errors(p) || hasKind(p.ctxs, func(k *kindInfo) bool { return k.name == "v-time" }) {
		if problem := prepareProcess(); problem != "" {
			return problem
		}
	}
	return ""
}

func setupRefR8(in *eval.Interp, p *program) {
	for i, c := range p.ctxs {
		k := c.kind
		switch {
		case isValueKind(k):
			for _, v := range r8VarPrefixes {
				in.SetGlobal(string(lv(v, i)), nil)
			}
			if k.name == "v-setf-car" {
				in.SetGlobal(string(lv("cc", i)), []eval.Value{int64(1)})
			}
		case k.name == "hof-maphash" || k.name == "hofn-maphash":
			in.SetGlobal(string(lv("ht", i)), &eval.HashTable{Keys: []eval.Value{int64(1), int64(2), int64(3)}, Vals: []eval.Value{int64(1), int64(2), int64(3)}})
		}
	}
}
