package c04

import (
	"strconv"
	"strings"
)

// ---------------------------------------------------------------- shapes

// shape is a lambda list: req required parameters (a b c), optional
// parameters (o1 o2; true = has a default), &rest r, key parameters (k1 k2 k3;
// true = has a default), &aux (x1 70) x2.
//
// mode selects one further dimension of the lambda list (0 = the plain shape):
//
//	'f'  every default is a FORM with a side effect that reads all earlier parameters:
//	     (o1 (tr 'o1 (list 'o1 a))), &aux (x1 (tr 'x1 (list 'x1 <all>))) (x2 (tr 'x2 (list 'x2 x1)))
//	's'  every &optional / &key parameter has a supplied-p variable: (o1 51 o1-p)
//	'q'  every &key parameter is written ((:qk1 k1) 61): the caller's keyword differs from the variable
//	'L' 'U' 'M'  long parameter names (aa op1 rs ky1 xa1) declared in lower / UPPER / Mixed case in the
//	     lambda list (the body reads them in lower case; slip symbols are case-insensitive)
//
// aok adds &allow-other-keys after the key parameters (&key is written even without key parameters).
type shape struct {
	req  int
	opt  []bool
	rest bool
	key  []bool
	aux  bool
	mode byte
	aok  bool
}

type nameTable struct {
	req  []string
	opt  []string
	rest string
	key  []string
	aux  []string
	unk  string // the unknown key
}

var (
	shortNames = &nameTable{req: []string{"a", "b", "c"}, opt: []string{"o1", "o2"}, rest: "r", key: []string{"k1", "k2", "k3"}, aux: []string{"x1", "x2"}, unk: "zz"}
	longNames  = &nameTable{req: []string{"aa", "bb", "cc"}, opt: []string{"op1", "op2"}, rest: "rs", key: []string{"ky1", "ky2", "ky3"}, aux: []string{"xa1", "xa2"}, unk: "zz"}
)

func (sh *shape) caseMode() bool { return sh.mode == 'L' || sh.mode == 'U' || sh.mode == 'M' }

func (sh *shape) nt() *nameTable {
	if sh.caseMode() {
		return longNames
	}
	return shortNames
}

func (sh *shape) reqName(i int) string { return sh.nt().req[i] }
func (sh *shape) optName(i int) string { return sh.nt().opt[i] }
func (sh *shape) keyName(i int) string { return sh.nt().key[i] }
func (sh *shape) restName() string     { return sh.nt().rest }
func (sh *shape) auxName(i int) string { return sh.nt().aux[i] }
func (sh *shape) unknownKey() string   { return sh.nt().unk }

// keyArg is the keyword (lower case, without the colon) a caller uses for key parameter i.
func (sh *shape) keyArg(i int) string {
	if sh.mode == 'q' {
		return "q" + sh.keyName(i)
	}
	return sh.keyName(i)
}

// spell applies a spelling ('L' lower, 'U' upper, 'M' first letter upper) to a name.
func spell(name string, mode byte) string {
	switch mode {
	case 'U':
		return strings.ToUpper(name)
	case 'M':
		return strings.ToUpper(name[:1]) + name[1:]
	}
	return name
}

// decl is the spelling of a parameter name in the lambda list.
func (sh *shape) decl(name string) string { return spell(name, sh.mode) }

const (
	optDefaultBase = 51 // o1 -> 51, o2 -> 52
	keyDefaultBase = 61 // k1 -> 61 ...
	auxValue       = 70
)

func flags(bs []bool) string {
	var b strings.Builder
	for _, x := range bs {
		if x {
			b.WriteByte('d')
		} else {
			b.WriteByte('n')
		}
	}
	if b.Len() == 0 {
		return "-"
	}
	return b.String()
}

func parseFlags(s string) []bool {
	if s == "-" {
		return nil
	}
	out := make([]bool, len(s))
	for i := range s {
		out[i] = s[i] == 'd'
	}
	return out
}

func b01(b bool) string {
	if b {
		return "1"
	}
	return "0"
}

// code is the spec rendering: req|opt|rest|key|aux, the aux field carries the mode letter and "+" for &allow-other-keys
func (sh *shape) code() string {
	s := strconv.Itoa(sh.req) + "|" + flags(sh.opt) + "|" + b01(sh.rest) + "|" + flags(sh.key) + "|" + b01(sh.aux)
	if sh.mode != 0 {
		s += string(sh.mode)
	}
	if sh.aok {
		s += "+"
	}
	return s
}

func (sh *shape) hasKeySection() bool { return 0 < len(sh.key) || sh.aok }

// formDefault is the init-form of parameter name in 'f' mode: logs the name, yields (name <earlier parameters>).
func formDefault(name string, earlier []string) string {
	return "(tr '" + name + " (list '" + name + strings.Join(append([]string{""}, earlier...), " ") + "))"
}

// earlierNames: the parameters to the left of the given lambda-list section ("opt" i, "key" i, "aux").
func (sh *shape) earlierNames(section string, i int) []string {
	var out []string
	for j := 0; j < sh.req; j++ {
		out = append(out, sh.reqName(j))
	}
	if section == "opt" {
		for j := 0; j < i; j++ {
			out = append(out, sh.optName(j))
		}
		return out
	}
	for j := range sh.opt {
		out = append(out, sh.optName(j))
	}
	if sh.rest {
		out = append(out, sh.restName())
	}
	if section == "key" {
		for j := 0; j < i; j++ {
			out = append(out, sh.keyName(j))
		}
		return out
	}
	for j := range sh.key {
		out = append(out, sh.keyName(j))
	}
	return out
}

// lambdaList renders the Lisp lambda list.
func (sh *shape) lambdaList() string {
	var p []string
	for i := 0; i < sh.req; i++ {
		p = append(p, sh.decl(sh.reqName(i)))
	}
	param := func(section string, i int, name string, hasDefault bool, base int) string {
		n := sh.decl(name)
		dflt := "nil"
		if hasDefault {
			dflt = strconv.Itoa(base + i)
		}
		switch {
		case sh.mode == 'f' && hasDefault:
			return "(" + n + " " + formDefault(name, sh.earlierNames(section, i)) + ")"
		case sh.mode == 's':
			return "(" + n + " " + dflt + " " + n + "-p)"
		case sh.mode == 'q' && section == "key" && hasDefault:
			return "((:" + sh.keyArg(i) + " " + n + ") " + dflt + ")"
		case sh.mode == 'q' && section == "key":
			return "((:" + sh.keyArg(i) + " " + n + "))"
		case hasDefault:
			return "(" + n + " " + dflt + ")"
		}
		return n
	}
	if 0 < len(sh.opt) {
		p = append(p, "&optional")
		for i, d := range sh.opt {
			p = append(p, param("opt", i, sh.optName(i), d, optDefaultBase))
		}
	}
	if sh.rest {
		p = append(p, "&rest", sh.decl(sh.restName()))
	}
	if sh.hasKeySection() {
		p = append(p, "&key")
		for i, d := range sh.key {
			p = append(p, param("key", i, sh.keyName(i), d, keyDefaultBase))
		}
		if sh.aok {
			p = append(p, "&allow-other-keys")
		}
	}
	if sh.aux {
		x1, x2 := sh.auxName(0), sh.auxName(1)
		if sh.mode == 'f' {
			p = append(p, "&aux", "("+x1+" "+formDefault(x1, sh.earlierNames("aux", 0))+")", "("+x2+" "+formDefault(x2, []string{x1})+")")
		} else {
			p = append(p, "&aux", "("+sh.decl(x1)+" "+strconv.Itoa(auxValue)+")", sh.decl(x2))
		}
	}
	return "(" + strings.Join(p, " ") + ")"
}

// genericLambdaList is the lambda list of the defgeneric that goes with this shape: no defaults, no &aux.
func (sh *shape) genericLambdaList() string {
	var p []string
	for i := 0; i < sh.req; i++ {
		p = append(p, sh.decl(sh.reqName(i)))
	}
	if 0 < len(sh.opt) {
		p = append(p, "&optional")
		for i := range sh.opt {
			p = append(p, sh.decl(sh.optName(i)))
		}
	}
	if sh.rest {
		p = append(p, "&rest", sh.decl(sh.restName()))
	}
	if sh.hasKeySection() {
		p = append(p, "&key")
		for i := range sh.key {
			p = append(p, sh.decl(sh.keyName(i)))
		}
		if sh.aok {
			p = append(p, "&allow-other-keys")
		}
	}
	return "(" + strings.Join(p, " ") + ")"
}

// params lists all parameter names (lower case) in lambda-list order (the body returns them as a list).
func (sh *shape) params() (names, kinds []string) {
	for i := 0; i < sh.req; i++ {
		names, kinds = append(names, sh.reqName(i)), append(kinds, "required")
	}
	for i := range sh.opt {
		names, kinds = append(names, sh.optName(i)), append(kinds, "optional")
		if sh.mode == 's' {
			names, kinds = append(names, sh.optName(i)+"-p"), append(kinds, "optional-supplied-p")
		}
	}
	if sh.rest {
		names, kinds = append(names, sh.restName()), append(kinds, "rest")
	}
	for i := range sh.key {
		names, kinds = append(names, sh.keyName(i)), append(kinds, "key")
		if sh.mode == 's' {
			names, kinds = append(names, sh.keyName(i)+"-p"), append(kinds, "key-supplied-p")
		}
	}
	if sh.aux {
		names, kinds = append(names, sh.auxName(0), sh.auxName(1)), append(kinds, "aux", "aux")
	}
	return
}

// ---------------------------------------------------------------- arguments

// arg is one actual argument: a keyword (kw != "", spelled as the caller writes it), nil, t or the fixnum 100+index.
type arg struct {
	kw    string
	val   int
	isNil bool // an explicit nil argument (token "n")
	isT   bool // the argument t (token "#t")
	form  bool // macro routes: a fixnum is passed as the unevaluated form (tr <index> <value>)
}

// text is the canonical rendering of the value the function must see.
func (a arg) text() string {
	switch {
	case a.isNil:
		return "nil"
	case a.isT:
		return "t"
	case a.kw != "":
		return ":" + strings.ToLower(a.kw)
	case a.form:
		return "(tr " + strconv.Itoa(a.val-100) + " " + strconv.Itoa(a.val) + ")"
	}
	return strconv.Itoa(a.val)
}

// callText is what the caller writes.
func (a arg) callText() string {
	if a.kw != "" {
		return ":" + a.kw
	}
	return a.text()
}

// parseArgs: tokens separated by ',' : "v" = a fixnum (value 100+index), "n" = an explicit nil, "#t" = t,
// anything else = keyword of that name and spelling.
func parseArgs(s string) []arg {
	if s == "" {
		return nil
	}
	toks := strings.Split(s, ",")
	out := make([]arg, len(toks))
	for i, t := range toks {
		switch t {
		case "v":
			out[i] = arg{val: 100 + i}
		case "n":
			out[i] = arg{isNil: true}
		case "#t":
			out[i] = arg{isT: true}
		default:
			out[i] = arg{kw: t}
		}
	}
	return out
}

const aokKey = "allow-other-keys"

// ---------------------------------------------------------------- reference binder (CLHS 3.4.1)

// variant selects among the behaviours the statement leaves open (S2).
type variant struct {
	slipRest     bool // &rest with &key collects only the arguments before the first declared keyword (slip's convention) instead of all remaining arguments (CL)
	dupRight     bool // duplicate key: rightmost wins (CL: leftmost)
	unknownError bool // unknown key is an error (CL without &allow-other-keys) instead of being ignored (slip documents :allow-other-keys t)
}

// mutation selects one seeded bug of the reference (selftest only).
type mutation int

const (
	mNone mutation = iota
	mMissingRequiredAccepted
	mTooManyAccepted
	mOptionalDefaultIgnored
	mRestDropsFirst
	mKeysByPosition
	mKeywordSkipsOptional
	mKeyDefaultIgnored
	mUnknownKeyClobbersParam
	mExplicitNilIsAbsent
	// sixth round
	mSuppliedPFromValue
	mFormEvaluatedWhenSupplied
	mKeyDefaultsEvaluatedFirst
	mFormSeesNoEarlierParameter
	mAllowOtherKeysStillRejected
	mAllowOtherKeysArgIsUnknownKey
	mKeysBeforeOptionals
	mAbsentSeesEnclosingBinding
	mKeySpellingNotFolded
	mDeclaredSpellingNotFolded
	mKeywordSpecUsesVariableName
)

var mutationNames = map[mutation]string{
	mMissingRequiredAccepted: "missing required argument accepted (bound to nil)",
	mTooManyAccepted:         "surplus positional arguments silently dropped",
	mOptionalDefaultIgnored:  "absent &optional gets nil instead of its default",
	mRestDropsFirst:          "&rest loses its first element",
	mKeysByPosition:          "&key bound by position of the pair instead of by name",
	mKeywordSkipsOptional:    "a keyword-looking positional argument is not bound to &optional but starts the key section",
	mKeyDefaultIgnored:       "absent &key gets nil instead of its default",
	mUnknownKeyClobbersParam: "an unknown key whose name equals a parameter name overwrites that parameter",
	mExplicitNilIsAbsent:     "an explicit nil for an &optional or &key parameter counts as absent (the default is used)",

	mSuppliedPFromValue:            "supplied-p is t whenever the value is non-nil",
	mFormEvaluatedWhenSupplied:     "a default form is evaluated although the argument was supplied",
	mKeyDefaultsEvaluatedFirst:     "the default forms of &key parameters are evaluated before those of &optional parameters",
	mFormSeesNoEarlierParameter:    "a default form is evaluated before the earlier parameters are bound (reads nil)",
	mAllowOtherKeysStillRejected:   "an unknown key is rejected although &allow-other-keys / :allow-other-keys t allows it",
	mAllowOtherKeysArgIsUnknownKey: ":allow-other-keys in the call is itself rejected as an unknown key",
	mKeysBeforeOptionals:           "the lambda list binds &key before &optional (a declared keyword among the optional positions starts the key section)",
	mAbsentSeesEnclosingBinding:    "an absent &optional / &rest / &key parameter takes the value of a like-named variable of the enclosing scope instead of its default",
	mKeySpellingNotFolded:          "a keyword spelled with upper-case letters by the caller is not recognised (bound under the caller's spelling)",
	mDeclaredSpellingNotFolded:     "a &key parameter declared with upper-case letters is never matched by the caller's keyword",
	mKeywordSpecUsesVariableName:   "((:keyword var) default): the variable name is used as the keyword",
}

// outcome of a bind: err != "" (reason) or the rendered value list plus the order in which default forms were evaluated.
type outcome struct {
	err   string // "too-few" | "too-many" | "non-keyword-in-key-position" | "odd-key-tail" | "unknown-key"
	vals  []string
	trace []string
}

func (o outcome) valueString() string {
	if len(o.vals) == 0 {
		return "nil"
	}
	return "(" + strings.Join(o.vals, " ") + ")"
}

func (o outcome) String() string {
	if o.err != "" {
		return "ERR"
	}
	return withTrace(o.valueString(), o.trace)
}

func withTrace(val string, trace []string) string {
	if len(trace) == 0 {
		return val
	}
	return val + " evaluated=" + strings.Join(trace, ",")
}

func renderList(as []arg) string {
	if len(as) == 0 {
		return "nil"
	}
	p := make([]string, len(as))
	for i, a := range as {
		p[i] = a.text()
	}
	return "(" + strings.Join(p, " ") + ")"
}

// bind is the reference binder.
func bind(sh *shape, args []arg, v variant, m mutation) outcome {
	return bindEnv(sh, args, v, m, nil)
}

// bindEnv: env holds the like-named variables visible around the call (ignored by the reference, read by one mutant).
func bindEnv(sh *shape, args []arg, v variant, m mutation, env map[string]string) outcome {
	bound := map[string]string{}
	if len(args) < sh.req {
		if m != mMissingRequiredAccepted {
			return outcome{err: "too-few"}
		}
	}
	declared := func(kw string) int {
		for i := range sh.key {
			want := sh.keyArg(i)
			if m == mKeywordSpecUsesVariableName {
				want = sh.keyName(i)
			}
			switch {
			case m == mDeclaredSpellingNotFolded && sh.decl(want) != want:
				// never matched
			case m == mKeySpellingNotFolded:
				if want == kw {
					return i
				}
			case strings.EqualFold(want, kw):
				return i
			}
		}
		return -1
	}
	ai := 0
	for i := 0; i < sh.req; i++ {
		if ai < len(args) {
			bound[sh.reqName(i)] = args[ai].text()
			ai++
		} else {
			bound[sh.reqName(i)] = "nil"
		}
	}
	for i := range sh.opt {
		if ai < len(args) {
			if m == mKeywordSkipsOptional && args[ai].kw != "" && 0 < len(sh.key) {
				break
			}
			if m == mKeysBeforeOptionals && args[ai].kw != "" && 0 <= declared(args[ai].kw) {
				break
			}
			if !(m == mExplicitNilIsAbsent && args[ai].isNil) {
				bound[sh.optName(i)] = args[ai].text()
			}
			ai++
		}
	}
	rem := args[ai:]
	switch {
	case !sh.hasKeySection() && !sh.rest:
		if 0 < len(rem) && m != mTooManyAccepted {
			return outcome{err: "too-many"}
		}
	case !sh.hasKeySection():
		bound[sh.restName()] = renderList(rem)
		if m == mRestDropsFirst && 0 < len(rem) {
			bound[sh.restName()] = renderList(rem[1:])
		}
	default:
		ks := rem
		if sh.rest {
			restPart := rem
			if v.slipRest {
				n := 0
				for n < len(rem) && !(rem[n].kw != "" && 0 <= declared(rem[n].kw)) {
					n++
				}
				restPart, ks = rem[:n], rem[n:]
			}
			bound[sh.restName()] = renderList(restPart)
			if m == mRestDropsFirst && 0 < len(restPart) {
				bound[sh.restName()] = renderList(restPart[1:])
			}
		}
		// other keys are allowed by &allow-other-keys or by the first :allow-other-keys pair of the call having a true value
		allowed := sh.aok
		for i := 0; i+1 < len(ks); i += 2 {
			if strings.EqualFold(ks[i].kw, aokKey) {
				if !ks[i+1].isNil {
					allowed = true
				}
				break
			}
		}
		names, _ := sh.params()
		pair := 0
		for i := 0; i < len(ks); i += 2 {
			if ks[i].kw == "" {
				return outcome{err: "non-keyword-in-key-position"}
			}
			if len(ks) <= i+1 {
				return outcome{err: "odd-key-tail"}
			}
			ki := declared(ks[i].kw)
			if m == mKeysByPosition {
				ki = -1
				if pair < len(sh.key) {
					ki = pair
				}
			}
			pair++
			if ki < 0 {
				if strings.EqualFold(ks[i].kw, aokKey) {
					if m == mAllowOtherKeysArgIsUnknownKey {
						return outcome{err: "unknown-key"}
					}
					continue
				}
				if (v.unknownError && !allowed) || (allowed && m == mAllowOtherKeysStillRejected) {
					return outcome{err: "unknown-key"}
				}
				if m == mUnknownKeyClobbersParam {
					for _, n := range names {
						if n == strings.ToLower(ks[i].kw) {
							bound[n] = ks[i+1].text()
						}
					}
				}
				continue
			}
			if _, has := bound[sh.keyName(ki)]; has && !v.dupRight {
				continue
			}
			if m == mExplicitNilIsAbsent && ks[i+1].isNil {
				continue
			}
			bound[sh.keyName(ki)] = ks[i+1].text()
		}
	}
	// defaults, left to right
	var optTrace, keyTrace, auxTrace []string
	formValue := func(name string, earlier []string) string {
		p := []string{name}
		for _, e := range earlier {
			if m == mFormSeesNoEarlierParameter {
				p = append(p, "nil")
			} else {
				p = append(p, bound[e])
			}
		}
		return "(" + strings.Join(p, " ") + ")"
	}
	absent := func(name string) (string, bool) { // the mutant's idea of an absent parameter's value
		if m == mAbsentSeesEnclosingBinding {
			if ev, has := env[name]; has {
				return ev, true
			}
		}
		return "", false
	}
	suppliedP := func(name string, supplied bool) {
		if sh.mode != 's' {
			return
		}
		if m == mSuppliedPFromValue {
			supplied = bound[name] != "nil"
		}
		bound[name+"-p"] = "nil"
		if supplied {
			bound[name+"-p"] = "t"
		}
	}
	for i, d := range sh.opt {
		name := sh.optName(i)
		_, has := bound[name]
		if !has {
			if ev, leak := absent(name); leak {
				bound[name] = ev
			} else {
				bound[name] = "nil"
				switch {
				case d && m == mOptionalDefaultIgnored:
				case d && sh.mode == 'f':
					bound[name] = formValue(name, sh.earlierNames("opt", i))
					optTrace = append(optTrace, name)
				case d:
					bound[name] = strconv.Itoa(optDefaultBase + i)
				}
			}
		} else if d && sh.mode == 'f' && m == mFormEvaluatedWhenSupplied {
			optTrace = append(optTrace, name)
		}
		suppliedP(name, has)
	}
	if sh.rest {
		if bound[sh.restName()] == "nil" {
			if ev, leak := absent(sh.restName()); leak {
				bound[sh.restName()] = ev
			}
		}
	}
	for i, d := range sh.key {
		name := sh.keyName(i)
		_, has := bound[name]
		if !has {
			if ev, leak := absent(name); leak {
				bound[name] = ev
			} else {
				bound[name] = "nil"
				switch {
				case d && m == mKeyDefaultIgnored:
				case d && sh.mode == 'f':
					bound[name] = formValue(name, sh.earlierNames("key", i))
					keyTrace = append(keyTrace, name)
				case d:
					bound[name] = strconv.Itoa(keyDefaultBase + i)
				}
			}
		} else if d && sh.mode == 'f' && m == mFormEvaluatedWhenSupplied {
			keyTrace = append(keyTrace, name)
		}
		suppliedP(name, has)
	}
	if sh.aux {
		x1, x2 := sh.auxName(0), sh.auxName(1)
		clobber := m == mUnknownKeyClobbersParam
		if _, has := bound[x1]; !has || !clobber {
			bound[x1] = strconv.Itoa(auxValue)
			if sh.mode == 'f' {
				bound[x1] = formValue(x1, sh.earlierNames("aux", 0))
			}
		}
		if _, has := bound[x2]; !has || !clobber {
			bound[x2] = "nil"
			if sh.mode == 'f' {
				bound[x2] = formValue(x2, []string{x1})
			}
		}
		if sh.mode == 'f' {
			auxTrace = []string{x1, x2}
		}
	}
	names, _ := sh.params()
	out := outcome{vals: make([]string, len(names))}
	for i, n := range names {
		out.vals[i] = bound[n]
	}
	if m == mKeyDefaultsEvaluatedFirst {
		out.trace = append(append(append(out.trace, keyTrace...), optTrace...), auxTrace...)
	} else {
		out.trace = append(append(append(out.trace, optTrace...), keyTrace...), auxTrace...)
	}
	return out
}

var allVariants = func() []variant {
	var vs []variant
	for _, sr := range []bool{false, true} {
		for _, dr := range []bool{false, true} {
			for _, ue := range []bool{false, true} {
				vs = append(vs, variant{slipRest: sr, dupRight: dr, unknownError: ue})
			}
		}
	}
	return vs
}()

// acceptable returns the set of outcomes the statement allows, keyed by rendering. errReasons
// collects the reasons of the ERR members; values holds the value outcomes (CL variant first).
type expectation struct {
	set        map[string]bool
	errReasons map[string]bool
	values     []outcome
}

func acceptable(sh *shape, args []arg) *expectation {
	e := &expectation{set: map[string]bool{}, errReasons: map[string]bool{}}
	e.add(sh, args)
	return e
}

// add widens the expectation by the outcomes of another argument vector (routes that may pass the arguments in either order).
func (e *expectation) add(sh *shape, args []arg) {
	for _, v := range allVariants {
		o := bind(sh, args, v, mNone)
		s := o.String()
		if o.err != "" {
			e.errReasons[o.err] = true
		} else if !e.set[s] {
			e.values = append(e.values, o)
		}
		e.set[s] = true
	}
}

func (e *expectation) onlyError() bool { return len(e.values) == 0 }

// hasValues tells whether the value list (without regard to the evaluation trace) is one of the allowed ones.
func (e *expectation) hasValues(val string) bool {
	for _, o := range e.values {
		if o.valueString() == val {
			return true
		}
	}
	return false
}

func (e *expectation) describe() string {
	var p []string
	for _, o := range e.values {
		p = append(p, o.String())
	}
	if e.set["ERR"] {
		var rs []string
		for _, r := range []string{"too-few", "too-many", "non-keyword-in-key-position", "odd-key-tail", "unknown-key"} {
			if e.errReasons[r] {
				rs = append(rs, r)
			}
		}
		p = append(p, "an error ("+strings.Join(rs, "/")+")")
	}
	return strings.Join(p, " or ")
}
