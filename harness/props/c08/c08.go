// Package c08: meaning does not depend on definition order, compilation or
// re-evaluation. Exhaustive enumeration of program templates x every order of
// the top-level definitions x evaluation modes, each executed on the real slip
// and compared step by step with an order-independent reference evaluator.
package c08

import (
	"crypto/sha256"
	"encoding/hex"
	"fmt"
	"sort"
	"strings"
	"sync/atomic"

	"verif/engine"
)

func init() {
	engine.Register(&engine.Prop{
		ID:    "C08",
		Level: "exploration",
		Rule: "every program of the template alphabet x every order of its top-level definitions (macro definitions stay before their users) x every mode " +
			"{each form read+eval; whole text read, eval; whole text Compile, eval; each form Compile, eval; load; load twice; same main Code evaluated 5x (plain / compiled / mixed); " +
			"whole Code evaluated 3x (plain / compiled); redefine one definition, re-evaluate the same and a fresh main, restore (plain / compiled); main evaluated before any and after " +
			"every definition (plain / compiled; not for programs with mutable state or macros)}; value and (tr ..) trace of every evaluation of main are compared with an independent late-binding reference evaluator; " +
			"a case is non-trivial when a call site or function designator was defined or compiled before its target existed, or when the mode evaluates a Code object more than once, " +
			"compiles it, or redefines a function; family reeval (model-free, differential): every special operator of the interpreter in a pure expression of x that is evaluated " +
			"three times with x = 1,2,1 and 2,1,2 through one function, compiled function, lambda, Code object (plain / compiled), loop body and nested call - the n-th result must equal " +
			"what a fresh copy of the same code gives when evaluated once with that x",
		Assumptions: []string{
			"the reference evaluator (props/c08/ref.go, a 600-line late-binding Lisp subset) is the oracle; its own sensitivity is shown by the mutated references",
			"Code.Compile evaluating top-level defun/defvar/defmacro before the other top-level forms is documented (docs/features.md, Read and Eval) and modelled, not reported",
			"macro definitions always precede the code that uses them (Common Lisp leaves the other order undefined; the statement speaks of functions)",
			"what an evaluation returns or signals while a callee is still missing is not constrained (only Go faults are reported); the value of a definition form is not constrained",
			"definition forms have no side effects except a traced defvar/defparameter initial value, which must be evaluated exactly as often as the definition form is (once, or never when a defvar is already bound)",
			"a redefined macro is expected to be seen by functions defined earlier (slip expands at every call; holds on the unchanged tree)",
			"(funcall f) with no further argument is not generated (slip rejects it: C04's finding)",
		},
		Enumerate: enumerate,
		Exec:      exec,
		Required: []string{"fwd-plain-args", "fwd-plain-noargs", "fwd-special-args", "fwd-special-noargs", "fwd-ref", "fwd-var", "compiled", "re-evaluated",
			"redefinition-seen-by-old-caller", "early-failure-then-value", "mutual-recursion", "self-recursion", "self-recursion-guard-clause", "macro-use",
			"macro-expands-to-later-function", "defvar-read", "global-state", "closure", "closure-state", "code-as-data", "function-designator", "two-callers", "re-evaluated-under-new-bindings", "reeval-cases", "keyword-arguments", "generic-function-callee"},
		Bound:    bound,
		Selftest: selftest,
	})
}

func bound(tier string) string {
	progs, cases := 0, 0
	fam := map[string]int{}
	enumerate(tier, func(string) { cases++ })
	for _, p := range allPrograms() {
		if !p.thorough || tier == engine.Thorough {
			progs++
			fam[p.fam]++
		}
	}
	var fs []string
	for f, n := range fam {
		fs = append(fs, fmt.Sprintf("%s=%d", f, n))
	}
	sort.Strings(fs)
	shapes := "call graphs chain2, chain3, mutual2, mutual3, fan3, join3, recursive-leaf, self1, self2, selfjoin3, mutual2s (self / back call in the context itself, guard-clause termination) (<= 3 definitions) x 15 of 19 call contexts x 0..3 traced arguments x required/&optional parameters"
	if tier == engine.Thorough {
		shapes = "call graphs chain2..4, mutual2, mutual3, fan3, join3, diamond4, recursive-leaf, self1, self2, selfjoin3, mutual2s, mutual3s (self / back call in the context itself, guard-clause termination) (<= 4 definitions, all 24 orders) x all 19 call contexts x 0..3 traced arguments x " +
			"required/&optional parameters, plus chain3 with every ordered pair of distinct contexts on its two edges"
	}
	return fmt.Sprintf("%d programs (%s): %s; macro / defvar / closure / code-as-data programs; every admissible order of the definitions; %d modes + one redefinition mode pair per "+
		"redefinable definition; family reeval: "+reevalOps()+" x 7 ways of holding the code x 2 value orders; %d cases, all executed", progs, strings.Join(fs, " "), shapes, len(baseModes)+2, cases)
}

var caseCounter int64

// uniqPrefix: unique function/variable names per execution (slip's function table is process-global).
func uniqPrefix(spec string) string {
	h := sha256.Sum256([]byte(spec))
	n := atomic.AddInt64(&caseCounter, 1) - 1
	return fmt.Sprintf("c8%sn%d-", hex.EncodeToString(h[:4]), n)
}

func parseSpec(spec string) (p *program, perm []int, mode string, err error) {
	parts := strings.Split(spec, "|")
	if len(parts) != 3 {
		return nil, nil, "", fmt.Errorf("spec must be program|order|mode")
	}
	allPrograms()
	if p = progByID[parts[0]]; p == nil {
		return nil, nil, "", fmt.Errorf("unknown program %q", parts[0])
	}
	seen := map[int]bool{}
	for _, c := range parts[1] {
		d := int(c - '0')
		if d < 0 || len(p.defs) <= d || seen[d] {
			return nil, nil, "", fmt.Errorf("bad order %q", parts[1])
		}
		seen[d] = true
		perm = append(perm, d)
	}
	if len(perm) != len(p.defs) {
		return nil, nil, "", fmt.Errorf("order %q does not cover the %d definitions", parts[1], len(p.defs))
	}
	return p, perm, parts[2], nil
}

// fwdLabel names the order-shape of a case by its "strongest" forward edge:
// a call site in a strict position (body form, function argument, progn) with
// arguments > the same without arguments > a call site inside a conditional /
// binding special form with / without arguments > a #'function designator >
// a global variable read by a function defined before the defvar.
var fwdPriority = []string{"plain+args", "plain+noargs", "special+args", "special+noargs", "ref", "var"}

func fwdLabel(edges []fwdEdge) string {
	set := map[string]bool{}
	for _, e := range edges {
		set[edgeName(e)] = true
	}
	for _, n := range fwdPriority {
		if set[n] {
			return n
		}
	}
	return "none"
}

// sigMode groups the modes for signatures (the exact mode is in the spec and the detail).
func sigMode(cls string) string {
	switch cls {
	case "each", "whole":
		return "eval"
	case "comp", "compeach", "load", "loadtwice":
		return "compile"
	case "rep", "mixrep", "wholerep":
		return "repeat"
	case "comprep", "compwholerep":
		return "compile-repeat"
	}
	if cls == "redefall" {
		return "redef"
	}
	if cls == "compredefall" {
		return "compredef"
	}
	return cls // redef compredef early compearly
}

func edgeName(e fwdEdge) string {
	if e.pos == "ref" || e.pos == "var" {
		return e.pos
	}
	if 0 < e.nargs {
		return e.pos + "+args"
	}
	return e.pos + "+noargs"
}

func renderHistory(h []hstep, upto int, generic func(string) string) string {
	var b strings.Builder
	for i, st := range h {
		if upto < i {
			break
		}
		if 0 < i {
			b.WriteString(" ;; ")
		}
		fmt.Fprintf(&b, "%c%d", st.op, st.slot)
		if st.src != "" {
			b.WriteString(" " + strings.ReplaceAll(generic(st.src), "\n", " "))
		}
	}
	return b.String()
}

func sameTrace(a, b []string) bool {
	if len(a) != len(b) {
		return false
	}
	for i := range a {
		if a[i] != b[i] {
			return false
		}
	}
	return true
}

func exec(spec string) (res engine.Result) {
	if strings.HasPrefix(spec, "raw|") {
		m := newMachine()
		r := newRefMachine(mutNone)
		var out []string
		for i, st := range parseRaw(spec[4:]) {
			o, seen := m.do(st)
			ro, _ := r.do(st)
			if seen {
				out = append(out, fmt.Sprintf("#%d %c%d: %s   [ref: %s]", i, st.op, st.slot, o.String(), ro.String()))
			}
		}
		out = append(out, "fwd="+fwdLabel(r.edges))
		res.Outcome = strings.Join(out, "\n")
		return
	}
	if strings.HasPrefix(spec, "reeval|") {
		return execReeval(spec)
	}
	p, perm, mode, err := parseSpec(spec)
	if err != nil {
		res.Fail("harness:bad-spec", spec+": "+err.Error())
		return
	}
	prefix := uniqPrefix(spec)
	uniq := func(s string) string { return strings.ReplaceAll(s, "@", prefix) }
	generic := func(s string) string { return strings.ReplaceAll(s, prefix, "@") }
	h, err := buildHistory(p, perm, mode, uniq)
	if err != nil {
		res.Fail("harness:bad-spec", spec+": "+err.Error())
		return
	}
	m := newMachine()
	r := newRefMachine(mutNone)
	cls := modeClass(mode)
	var digest []string
	evals := map[int]int{}
	earlyFailed := false
	failed := false
	for i, st := range h {
		ro, _ := r.do(st.step)
		if st.check == chkExact && ro.err != nil {
			res.Fail("harness:reference-fails", fmt.Sprintf("%s: reference fails at step %d of %s: %s", spec, i, renderHistory(h, i, generic), ro.String()))
			return
		}
		o, seen := m.do(st.step)
		if st.op == 'E' {
			evals[st.slot]++
			if 1 < evals[st.slot] && st.check == chkExact {
				res.Hit("re-evaluated")
			}
		}
		if st.op == 'C' || st.op == 'L' {
			res.Hit("compiled")
		}
		if !seen {
			continue
		}
		digest = append(digest, st.label+"="+generic(o.digest()))
		sig := func(kind string) string {
			return fmt.Sprintf("mode=%s fam=%s fwd=%s at=%s kind=%s", sigMode(cls), p.fam, fwdLabel(r.edges), st.label, kind)
		}
		detail := func(want string) string {
			return fmt.Sprintf("%s: step %d (%s) of  %s  => %s; %s", spec, i, st.label, renderHistory(h, i, generic), generic(o.String()), want)
		}
		switch {
		case o.err != nil && o.err.GoFault:
			res.Fail(sig("go-fault"), detail("a Go runtime fault"))
			failed = true
		case st.check == chkOK:
			// the value of a definition form is not constrained; its side effects are (a traced defvar initial value)
			if o.err != nil {
				res.Fail(sig("error:"+o.err.Class), detail("a definition / compile step must not fail"))
				failed = true
			} else if !sameTrace(o.trace, ro.trace) {
				res.Fail(sig("wrong-trace"), detail("the reference traces "+strings.Join(ro.trace, ",")))
				failed = true
			}
		case st.check == chkLenient && ro.err != nil:
			earlyFailed = true // callee still missing: outcome not constrained
		case st.check == chkExact || st.check == chkLenient:
			want := "the reference gives " + generic(ro.String())
			switch {
			case o.err != nil:
				res.Fail(sig("error:"+o.err.Class), detail(want))
				failed = true
			case o.val != ro.val || !sameTrace(o.outs, ro.outs):
				res.Fail(sig("wrong-value"), detail(want))
				failed = true
			case !sameTrace(o.trace, ro.trace):
				res.Fail(sig("wrong-trace"), detail(want))
				failed = true
			default:
				if earlyFailed && st.check == chkExact {
					res.Hit("early-failure-then-value")
				}
			}
		}
		if failed {
			break // S3: only the first divergence of a case is reported
		}
	}
	for _, e := range r.edges {
		res.Hit("fwd-" + strings.ReplaceAll(edgeName(e), "+", "-"))
	}
	fl := fwdLabel(r.edges)
	if fl == "plain+args" {
		res.Hit("cases-containing-the-known-trigger-plain+args")
	}
	if r.redefSeen {
		res.Hit("redefinition-seen-by-old-caller")
	}
	for _, f := range p.feats {
		res.Hit(f)
	}
	res.Nontrivial = fl != "none" || (cls != "each" && cls != "whole")
	res.Outcome = strings.Join(digest, " | ")
	return
}
