//go:build verif

package c18

import (
	"bytes"
	"encoding/json"
	"fmt"
	"os"
	"os/exec"
	"sort"
	"strings"
	"sync"
	"time"

	"github.com/ohler55/slip"
	"github.com/ohler55/slip/pkg/flavors"

	"verif/engine"
	"verif/lisp"
	"verif/ref/jsonpath"
)

// ------------------------------------------------------------ alphabet

// initial documents (JSON text, which is also SEN); "" is a bag made by (make-instance 'bag-flavor).
// No document and no value contains false: SimpleObject(false) => nil is a
// finding of the static phase and would otherwise blur get / walk here (S9).
var initDocsQuick = []string{
	`{}`,
	`{"a":[1,{"b":2},3],"b":null}`,
	`{"a":{"b":1,"c":[1,2]},"b":{"b":3}}`,
	`[1,{"b":2,"a":[5]}]`,
	`{"a":[],"c":5}`,
	``,
}

var initDocsThoroughExtra = []string{
	`{"a":null}`,
	`[]`,
	`{"a":[[1,2],{"b":{"b":4}}]}`,
}

func parseInitDoc(text string) (any, bool) {
	v, err := decodeJSON(text)
	return v, err == nil
}

var pathMenu = []string{"a", "a.b", "a[0]", "a[-1]", "[1]", "$", "a.*", "*", "..b", "a[1].b", "b", "a.c", "a.c[0]", "-"}
var pathMenuThoroughExtra = []string{"[0]", "a[1]", "[-1].b"}

type setValue struct {
	name string
	src  string // Lisp source
	tree any
}

var setValues = []setValue{
	{"7", "7", int64(7)},
	{"nil", "nil", nil},
	{"map", `'(("c" . 1))`, map[string]any{"c": int64(1)}},
	// a container holding a container: a wildcard or descent set must give every location its own copy all the way down
	{"nest", `'(("c" . (1 2)))`, map[string]any{"c": []any{int64(1), int64(2)}}},
	// members that a careless copy loses or changes: a null member, an integer beyond 64 bits
	{"mapnull", `(make-bag "{c:null d:12345678901234567890}")`, map[string]any{"c": nil, "d": json.Number("12345678901234567890")}},
	{"str", `"s"`, "s"},
	{"list", `'(8 9)`, []any{int64(8), int64(9)}},
}

func valueByName(n string) (setValue, bool) {
	for _, v := range setValues {
		if v.name == n {
			return v, true
		}
	}
	return setValue{}, false
}

func bfsOps(tier string) []string {
	docs := initDocsQuick
	paths := pathMenu
	vals := setValues[:5]
	if tier == engine.Thorough {
		docs = append(append([]string{}, docs...), initDocsThoroughExtra...)
		paths = append(append([]string{}, paths...), pathMenuThoroughExtra...)
		vals = setValues
	}
	var ops []string
	for _, d := range docs {
		ops = append(ops, "init|"+d)
	}
	for _, k := range []string{"get", "has", "walk", "rm"} {
		for _, p := range paths {
			if p == "-" && (k == "has" || k == "walk") {
				continue // these take a path
			}
			ops = append(ops, k+"|"+p)
		}
	}
	for _, p := range paths {
		for _, v := range vals {
			ops = append(ops, "set|"+p+"|"+v.name)
		}
	}
	return ops
}

// ------------------------------------------------------------ walk visitor

var (
	visitMu sync.Mutex
	visited []slip.Object
)

type visitFunc struct {
	slip.Function
}

func (f *visitFunc) Call(s *slip.Scope, args slip.List, depth int) slip.Object {
	visitMu.Lock()
	if 0 < len(args) {
		visited = append(visited, args[0])
	}
	visitMu.Unlock()
	return nil
}

func init() {
	slip.Define(
		func(args slip.List) slip.Object {
			f := visitFunc{Function: slip.Function{Name: "c18-visit", Args: args}}
			f.Self = &f
			return &f
		},
		&slip.FuncDoc{
			Name:   "c18-visit",
			Args:   []*slip.DocArg{{Name: "value", Type: "object"}},
			Return: "nil",
			Text:   "harness: records the value bag-walk hands to its function",
		}, &slip.UserPkg)
}

// ------------------------------------------------------------ exec

// opSource gives the Lisp source of an operation in its function form
// (bag-get ...) and in its method form (send b :get ...), which slip documents
// as the same operation. The path "-" stands for "no path argument" (the whole
// bag). b is replaced by the variable name the caller wants.
func opSource(op string) (src, msrc string, kind, path string, val setValue, ok bool) {
	parts := strings.Split(op, "|")
	kind = parts[0]
	if len(parts) < 2 {
		return
	}
	path = parts[1]
	parg := " p"
	if path == "-" {
		parg = ""
	}
	switch kind {
	case "init":
		if len(parts) != 2 {
			return
		}
		if parts[1] == "" {
			return "(make-instance 'bag-flavor)", "", kind, "", val, true
		}
		return "(make-bag doc)", "", kind, parts[1], val, true
	case "get":
		src, msrc = "(bag-get b"+parg+")", "(send b2 :get"+parg+")"
	case "has":
		src, msrc = "(bag-has b p)", "(send b2 :has p)"
	case "walk":
		src, msrc = "(bag-walk b (lambda (x) (c18-visit x)) p)", "(send b2 :walk (lambda (x) (c18-visit x)) p)"
	case "rm":
		src, msrc = "(bag-remove b"+parg+")", "(send b2 :remove"+parg+")"
	case "set":
		if len(parts) != 3 {
			return
		}
		var has bool
		if val, has = valueByName(parts[2]); !has {
			return
		}
		src, msrc = "(bag-set b "+val.src+parg+")", "(send b2 :set "+val.src+parg+")"
	default:
		return
	}
	if path == "-" && (kind == "has" || kind == "walk") {
		return
	}
	return src, msrc, kind, path, val, true
}

func rootClass(v any) string {
	switch v.(type) {
	case nil:
		return "null"
	case []any:
		return "array"
	case map[string]any:
		return "object"
	}
	return "scalar"
}

// stopClass says what kind of node a definite path runs into when it cannot
// be followed in doc (diagnosis for a set that did nothing).
func stopClass(doc any, p jsonpath.Path) string {
	cur := doc
	for i, f := range p {
		where := "parent"
		if i < len(p)-1 {
			where = "inner"
		}
		switch f.Kind {
		case jsonpath.Root:
		case jsonpath.Child:
			mp, ok := cur.(map[string]any)
			if !ok {
				return where + "-is-" + rootClass(cur) + "-for-child"
			}
			nv, has := mp[f.Key]
			if !has {
				return "member-missing"
			}
			cur = nv
		case jsonpath.Nth:
			arr, ok := cur.([]any)
			if !ok {
				return where + "-is-" + rootClass(cur) + "-for-index"
			}
			n := f.N
			if n < 0 {
				n += len(arr)
			}
			if n < 0 || len(arr) <= n {
				return "index-out-of-range"
			}
			cur = arr[n]
		}
	}
	return "resolvable"
}

func execHist(hist []string, raw bool) (res engine.Result) {
	if len(hist) == 0 {
		res.Key = "root"
		res.Outcome = "root"
		return
	}
	if !strings.HasPrefix(hist[0], "init|") {
		return // inapplicable: a history starts with a document
	}
	for _, op := range hist[1:] {
		if strings.HasPrefix(op, "init|") {
			return // inapplicable
		}
	}
	scope := slip.NewScope()
	var b *flavors.Instance
	for i, op := range hist {
		src, msrc, kind, path, val, ok := opSource(op)
		if !ok {
			res.Fail("harness:bad-op", op)
			return
		}
		last := i == len(hist)-1
		if kind == "init" {
			scope.Let("doc", slip.String(path))
			o, err := lisp.EvalIn(scope, src)
			if err != nil {
				res.Fail("harness:init-failed", op+": "+err.String())
				return
			}
			var isBag bool
			if b, isBag = bagOf(o); !isBag {
				res.Fail("harness:init-failed", op+": not a bag")
				return
			}
			scope.Let("b", b)
			if last {
				key, _ := aliasDump(b.Any)
				res.Key = key
				res.Outcome = "init " + key
			}
			continue
		}
		scope.Let("p", slip.String(path))
		if !last {
			visitMu.Lock()
			visited = nil
			visitMu.Unlock()
			_, _ = lisp.EvalIn(scope, src)
			continue
		}
		checkedStep(&res, scope, b, src, msrc, kind, path, val, raw)
	}
	return
}

// wouldNotReturn predicts the one operation class that is known not to
// return on the unchanged tree: a set through a descent path of a container
// value on a bag that already holds one container at two places (ojg's set
// then descends into the value it has just stored and stores it into itself).
// Executing it inside a long-lived worker would stall the whole batch, so the
// BFS steps around it (S9) and the static "term|" cases run exactly these
// histories in a child process with a deadline.
func wouldNotReturn(kind string, p jsonpath.Path, val setValue, preShared bool) bool {
	if kind != "set" || !preShared {
		return false
	}
	switch val.tree.(type) {
	case []any, map[string]any:
	default:
		return false
	}
	for _, f := range p {
		if f.Kind == jsonpath.Descent {
			return true
		}
	}
	return false
}

func checkedStep(res *engine.Result, scope *slip.Scope, b *flavors.Instance, src, msrc, kind, path string, val setValue, raw bool) {
	var p jsonpath.Path
	noPath := path == "-"
	if noPath {
		p = jsonpath.Path{{Kind: jsonpath.Root}}
		res.Hit("no-path-argument")
	} else {
		var perr error
		if p, perr = jsonpath.Parse(path); perr != nil {
			res.Fail("harness:bad-path", path+": "+perr.Error())
			return
		}
	}
	pre := copyTree(b.Any)
	preKey, preShared := aliasDump(b.Any)
	if !raw && wouldNotReturn(kind, p, val, preShared) {
		res.Key = preKey
		res.Outcome = "masked: descent set of a container on a bag with a shared container"
		res.Hit("masked-by-known:descent-set-on-shared-state")
		return
	}
	visitMu.Lock()
	visited = nil
	visitMu.Unlock()
	out, err := lisp.EvalIn(scope, src)
	post := b.Any
	key, _ := aliasDump(post)
	res.Key = key
	res.Nontrivial = true
	pk := p.Kind()
	if noPath {
		pk = "none"
	}
	ctx := fmt.Sprintf("on %s: %s with p=%q", trunc(dump(pre, false), 160), src, path)
	sig := func(law string) string { return fmt.Sprintf("op=%s path=%s law=%s", kind, pk, law) }
	aliasNote := ""
	if preShared {
		aliasNote = " shared=yes"
		res.Hit("state-with-shared-container")
	}
	if err != nil && err.GoFault {
		res.Fail(sig("no-go-fault"), ctx+" => "+err.String())
	}
	locs := jsonpath.Locate(pre, p, jsonpath.None)
	switch len(locs) {
	case 0:
		res.Hit("path-matches-nothing")
	case 1:
		res.Hit("path-matches-one")
	default:
		res.Hit("path-matches-many")
	}
	for _, f := range p {
		switch {
		case f.Kind == jsonpath.Nth && f.N < 0:
			res.Hit("negative-index")
		case f.Kind == jsonpath.Wildcard:
			res.Hit("wildcard")
		case f.Kind == jsonpath.Descent:
			res.Hit("descent")
		}
	}
	for _, l := range locs {
		if v, _ := jsonpath.At(pre, l); v == nil {
			res.Hit("null-member-matched")
			break
		}
	}
	valuesAt := func(doc any, ls []jsonpath.Loc) []string {
		var vs []string
		for _, l := range ls {
			v, _ := jsonpath.At(doc, l)
			vs = append(vs, dump(v, true))
		}
		return vs
	}
	readOnly := func() {
		if !equalTrees(pre, post, false) {
			res.Fail(sig("read-only"), fmt.Sprintf("%s changed the bag to %s", ctx, trunc(dump(post, false), 160)))
		}
	}
	switch kind {
	case "get":
		res.Hit("op-get")
		if err != nil {
			if !err.GoFault {
				res.Fail(sig("get-no-error"), ctx+" => "+err.String())
			}
			res.Outcome = "get error"
			break
		}
		got := dump(lispToTree(out), true)
		allowed := valuesAt(pre, locs)
		if len(allowed) == 0 {
			allowed = []string{"null"}
		}
		okv := false
		for _, a := range allowed {
			okv = okv || a == got
		}
		if !okv {
			res.Fail(sig("get-value"), fmt.Sprintf("%s => %s; the path addresses %v holding %v", ctx, got, locs, allowed))
		}
		res.Outcome = "get " + got
		readOnly()
	case "has":
		res.Hit("op-has")
		if err != nil {
			if !err.GoFault {
				res.Fail(sig("has-no-error"), ctx+" => "+err.String())
			}
			res.Outcome = "has error"
			break
		}
		got := lisp.Truthy(out)
		if got != (0 < len(locs)) {
			res.Fail(sig("has-agrees-with-locations"), fmt.Sprintf("%s => %v; the path addresses %d location(s) %v", ctx, got, len(locs), locs))
		}
		res.Outcome = fmt.Sprintf("has %v", got)
		readOnly()
	case "walk":
		res.Hit("op-walk")
		if err != nil {
			if !err.GoFault {
				res.Fail(sig("walk-no-error"), ctx+" => "+err.String())
			}
			res.Outcome = "walk error"
			break
		}
		visitMu.Lock()
		var got []string
		for _, o := range visited {
			got = append(got, dump(lispToTree(o), true))
		}
		visitMu.Unlock()
		want := valuesAt(pre, locs)
		sort.Strings(got)
		sort.Strings(want)
		if strings.Join(got, "\x00") != strings.Join(want, "\x00") {
			res.Fail(sig("walk-visits-what-get-finds"), fmt.Sprintf("%s visited %v; the path addresses %v holding %v", ctx, got, locs, want))
		}
		res.Outcome = "walk " + strings.Join(got, ",")
		readOnly()
	case "rm":
		res.Hit("op-remove")
		if err != nil {
			res.Outcome = "rm error"
			res.Hit("remove-refused")
			break
		}
		if 0 < len(locs) {
			res.Hit("remove-of-existing")
		}
		want := jsonpath.Remove(pre, locs)
		if noPath {
			want = nil // documented: the bag value is set to nil
		}
		if !equalTrees(want, post, false) {
			law := "remove-result"
			if equalTrees(pre, post, false) {
				law = "remove-removes"
			}
			res.Fail(sig(law)+aliasNote, fmt.Sprintf("%s left %s; removing %v should leave %s", ctx, trunc(dump(post, false), 160), locs, trunc(dump(want, false), 160)))
		}
		// through the API: a removed member is gone for has
		if !noPath && p.Definite() && p[len(p)-1].Kind == jsonpath.Child {
			h, herr := lisp.EvalIn(scope, "(bag-has b p)")
			if herr == nil && lisp.Truthy(h) {
				res.Fail(sig("has-after-remove"), ctx+": bag-has is still true after the remove")
			}
		}
		res.Outcome = "rm " + key
	case "set":
		res.Hit("op-set")
		checkSet(res, scope, p, pre, post, val, err, sig, ctx, aliasNote)
		res.Outcome = "set " + key
		if err != nil {
			res.Outcome = "set error " + key
		}
	}
	methodAgrees(res, scope, msrc, kind, p, pre, post, out, err, preShared, sig, ctx)
}

// methodAgrees: slip documents (bag-get ...) etc. as "the same as the :get
// method of the bag-flavor"; the method form is run on a fresh bag holding a
// copy of the pre-state and must do what the function form did. Not compared
// where the two may legitimately differ: get through a path that can match
// several locations (which one comes first is not fixed), and mutations of a
// bag that holds a shared container (the copy does not share).
func methodAgrees(res *engine.Result, scope *slip.Scope, msrc, kind string, p jsonpath.Path, pre, post any, out slip.Object,
	err *lisp.Err, preShared bool, sig func(string) string, ctx string) {
	if msrc == "" || (err != nil && err.GoFault) {
		return
	}
	mutating := kind == "set" || kind == "rm"
	if mutating && preShared {
		return
	}
	if kind == "get" && !p.Definite() {
		return
	}
	if kind == "rm" && strings.HasSuffix(msrc, ":remove)") {
		// (send bag :remove) without a path is refused with an arity error
		// although the method's documentation makes the path optional; that
		// is a matter of documented arity, not of this property (S2)
		return
	}
	b2 := newBag(copyTree(pre))
	scope.Let("b2", b2)
	visitMu.Lock()
	fvisited := visited
	visited = nil
	visitMu.Unlock()
	mout, merr := lisp.EvalIn(scope, msrc)
	res.Hit("method-form-compared")
	switch {
	case merr != nil && merr.GoFault:
		res.Fail(sig("no-go-fault"), ctx+": method form "+msrc+" => "+merr.String())
		return
	case (merr == nil) != (err == nil):
		res.Fail(sig("method-agrees-with-function"), fmt.Sprintf("%s => %s but %s => %s", ctx, errOrOK(err), msrc, errOrOK(merr)))
		return
	case merr != nil:
		return
	}
	differ := ""
	switch kind {
	case "get":
		if a, m := dump(lispToTree(out), true), dump(lispToTree(mout), true); a != m {
			differ = a + " vs " + m
		}
	case "has":
		if lisp.Truthy(out) != lisp.Truthy(mout) {
			differ = fmt.Sprintf("%v vs %v", lisp.Truthy(out), lisp.Truthy(mout))
		}
	case "walk":
		var a, m []string
		for _, o := range fvisited {
			a = append(a, dump(lispToTree(o), true))
		}
		visitMu.Lock()
		for _, o := range visited {
			m = append(m, dump(lispToTree(o), true))
		}
		visitMu.Unlock()
		sort.Strings(a)
		sort.Strings(m)
		if strings.Join(a, "\x00") != strings.Join(m, "\x00") {
			differ = fmt.Sprintf("visited %v vs %v", a, m)
		}
	case "set", "rm":
		if a, m := dump(post, false), dump(b2.Any, false); a != m {
			differ = "bag " + trunc(a, 120) + " vs " + trunc(m, 120)
		}
	}
	if differ != "" {
		res.Fail(sig("method-agrees-with-function"), fmt.Sprintf("%s and %s disagree: %s", ctx, msrc, differ))
	}
}

func errOrOK(e *lisp.Err) string {
	if e == nil {
		return "a value"
	}
	return e.String()
}

func checkSet(res *engine.Result, scope *slip.Scope, p jsonpath.Path, pre, post any, val setValue, err *lisp.Err,
	sig func(string) string, ctx, aliasNote string) {
	definite := p.Definite()
	postLocs := jsonpath.Locate(post, p, jsonpath.None)
	wantDump := dump(val.tree, false)
	if err != nil {
		res.Hit("set-refused")
	} else {
		// get-after-set on the tree
		switch {
		case definite && len(postLocs) == 0:
			if val.tree != nil {
				res.Fail("op=set law=get-after-set why=nothing-set:"+stopClass(pre, p),
					fmt.Sprintf("%s returned normally but the path addresses nothing afterwards; bag is %s", ctx, trunc(dump(post, false), 160)))
			}
		default:
			if 0 < len(postLocs) {
				res.Hit("set-took-effect")
			}
			for _, l := range outermost(postLocs) {
				v, _ := jsonpath.At(post, l)
				if dump(v, false) != wantDump {
					res.Fail(sig("get-after-set")+" why=location-not-set",
						fmt.Sprintf("%s: afterwards %s holds %s, not %s; bag is %s", ctx, l, trunc(dump(v, false), 80), wantDump, trunc(dump(post, false), 160)))
					break
				}
			}
		}
		// get-after-set through bag-get
		if 0 < len(postLocs) {
			gsrc := "(bag-get b p)"
			if len(p) == 1 && p[0].Kind == jsonpath.Root {
				gsrc = "(bag-get b)"
			}
			g, gerr := lisp.EvalIn(scope, gsrc)
			if gerr != nil {
				if !gerr.GoFault {
					res.Fail(sig("get-after-set")+" why=bag-get-error", ctx+": (bag-get b p) afterwards => "+gerr.String())
				} else {
					res.Fail(sig("no-go-fault"), ctx+": (bag-get b p) afterwards => "+gerr.String())
				}
			} else if got := dump(lispToTree(g), true); got != dump(val.tree, true) {
				res.Fail(sig("get-after-set")+" why=bag-get-returns-other", fmt.Sprintf("%s: (bag-get b p) afterwards => %s, not %s", ctx, got, dump(val.tree, true)))
			}
		}
	}
	// frame: every location disjoint from what the path addresses is unchanged
	var targets []jsonpath.Loc
	if definite {
		t, _ := jsonpath.Intended(pre, p)
		targets = append(targets, t)
	} else {
		targets = append(jsonpath.Locate(pre, p, jsonpath.None), postLocs...)
	}
	universe := append(jsonpath.Leaves(pre), jsonpath.Leaves(post)...)
	seen := map[string]bool{}
	checked := 0
	for _, q := range universe {
		qs := q.String()
		if seen[qs] {
			continue
		}
		seen[qs] = true
		overlap := false
		for _, t := range targets {
			if q.Overlaps(t) {
				overlap = true
				break
			}
		}
		if overlap {
			continue
		}
		checked++
		vpre, _ := jsonpath.At(pre, q)
		vpost, _ := jsonpath.At(post, q)
		if dump(vpre, false) != dump(vpost, false) {
			law := "frame"
			if err != nil {
				law = "frame-on-refused-set"
			}
			res.Fail(sig(law)+aliasNote, fmt.Sprintf("%s changed the disjoint location %s from %s to %s; bag is %s", ctx, qs,
				trunc(dump(vpre, false), 80), trunc(dump(vpost, false), 80), trunc(dump(post, false), 160)))
			break
		}
	}
	if 0 < checked {
		res.Hit("frame-locations-checked")
	}
}

// outermost drops locations that lie inside another location of the list.
func outermost(ls []jsonpath.Loc) []jsonpath.Loc {
	var out []jsonpath.Loc
	for i, l := range ls {
		inner := false
		for j, o := range ls {
			if i != j && len(o) < len(l) && o.Overlaps(l) {
				inner = true
				break
			}
		}
		if !inner {
			out = append(out, l)
		}
	}
	return out
}

// ------------------------------------------------------------ termination

// The histories the BFS steps around (wouldNotReturn), smallest first: a
// wildcard (or descent) set of a container puts one Go object at several
// places, a following descent set of a container must still return.
func enumerateTerm(tier string, emit func(string)) {
	docs := []string{initDocsQuick[1], initDocsQuick[2]}
	firsts := []string{"set|a.*|map", "set|*|map"}
	seconds := []string{"set|..b|map"}
	if tier == engine.Thorough {
		docs = append(docs, initDocsQuick[3], initDocsThoroughExtra[2])
		firsts = append(firsts, "set|a.*|list", "set|..b|map", "set|..b|list")
		seconds = append(seconds, "set|..b|list")
	}
	for _, d := range docs {
		for _, f := range firsts {
			for _, s := range seconds {
				emit("term|" + engine.BFSSpec([]string{"init|" + d, f, s})[4:])
			}
		}
	}
}

// termDeadline: the child's own processor time decides (engine.WaitBounded), not the wall: a child that was starved
// by other work on the machine is waited for until it has had termCPU of processor time or termWallMax has passed.
const termDeadline = 5 * time.Second
const termCPU = 3 * time.Second
const termWallMax = 60 * time.Second

// execTerm runs one history without the mask in a child process of this very
// binary and reports whether it came back.
func execTerm(spec string) (res engine.Result) {
	histJSON := strings.TrimPrefix(spec, "term|")
	hist, ok := engine.ParseBFSSpec("bfs:" + histJSON)
	if !ok || len(hist) < 2 {
		res.Fail("harness:bad-spec", spec)
		return
	}
	self, err := os.Executable()
	if err != nil {
		res.Fail("harness:no-executable", err.Error())
		return
	}
	res.Nontrivial = true
	res.Hit("termination-case")
	cmd := exec.Command(self, "exec", "C18", "--spec", "raw:"+histJSON, "--mem", "4")
	var out bytes.Buffer
	cmd.Stdout = &out
	if err = cmd.Start(); err != nil {
		res.Fail("harness:cannot-start-child", err.Error())
		return
	}
	done := make(chan error, 1)
	go func() { done <- cmd.Wait() }()
	_, _, kind, path, _, _ := opSource(hist[len(hist)-1])
	pk := path
	if p, perr := jsonpath.Parse(path); perr == nil {
		pk = p.Kind()
	}
	_, back := engine.WaitBounded(cmd.Process.Pid, done, termDeadline, termCPU, termWallMax, func() { res.Hit("term-wait-extended") })
	switch {
	case back:
		var child engine.Result
		if jerr := json.Unmarshal(out.Bytes(), &child); jerr != nil {
			res.Fail(fmt.Sprintf("op=%s path=%s law=returns why=process-died", kind, pk),
				fmt.Sprintf("history %s: the process running it died: %s", histJSON, trunc(out.String(), 300)))
			res.Outcome = "died"
			return
		}
		res.Failures = append(res.Failures, child.Failures...)
		res.Outcome = "returned: " + child.Outcome
	default:
		_ = cmd.Process.Kill()
		<-done
		res.Fail(fmt.Sprintf("op=%s path=%s law=returns shared=yes", kind, pk),
			fmt.Sprintf("history %s: the last operation had not returned after %s in a process of its own (memory grows steadily); "+
				"the bag holds one container at several places after the first set, the descent set stores its value into itself", histJSON, termDeadline))
		res.Outcome = "does not return"
	}
	return
}
