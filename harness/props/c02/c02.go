// Package c02: reading is a function of the text, not of how the text is
// delivered. Texts are generated from a hand-written token table; every text
// is read through every delivery of the reader API (whole string, bytes, one
// form at a time, stream cut at every position / chunk size / pair of
// positions, push, each, cl:read, read-from-string) under several reader
// configurations and compared with the generator's denotation, with the
// whole-string read and with the generator's end offsets.
package c02

import (
	"fmt"
	"runtime/debug"
	"strconv"
	"strings"

	"verif/engine"
)

func init() {
	// every ReadStream* call of slip allocates a 64 KiB block buffer; with the default GC target that is one
	// collection (scanning slip's ~70 MB of global tables as roots) per ~60 reads: measured 22 ms/case against
	// 2-3 ms/case with this setting, which lets the heap of a worker grow to about 300 MB
	debug.SetGCPercent(400)
	engine.Register(&engine.Prop{
		ID:    "C02",
		Level: "exploration",
		Rule: "every text built from the token table (singles, all ordered pairs, core triples) x placement context x separator x " +
			"reader configuration is read through every delivery; a case is non-trivial when at least one of its cut positions " +
			"falls inside a lexical construct (token, string, escape, #-dispatch, |symbol|, comment, after a quote) rather than between tokens",
		Assumptions: []string{
			"the token table's denotations are the oracle for the whole-string read; tokens whose reading Common Lisp or slip leave doubtful (e.g. 12 under *read-base* 2, .5, 4/2) carry no denotation and are only compared across deliveries",
			"an io.Reader may return any non-empty piece, the last piece with or without io.EOF, and an empty piece",
			"cl:read is only required to return the first form of a stream (its documentation says it is not suitable for repeated reads)",
			"read-from-string without :preserve-whitespace may report any position from the end of the form to the end of the white space after it; positions may be counted in bytes or characters",
			"a text that stops inside a top-level block comment is not 'inside a form': no error is demanded there",
		},
		Enumerate:     enumerate,
		Exec:          exec,
		Required:      required,
		Bound:         bound,
		Selftest:      selftest,
		CaseDeadlineS: 30,
	})
}

var required = []string{
	"cut:in-token", "cut:token-end", "cut:between", "cut:in-string", "cut:in-escape", "cut:in-u-escape", "cut:in-pipe",
	"cut:after-sharp", "cut:after-dispatch", "cut:in-char", "cut:in-sharp-number", "cut:in-line-comment",
	"cut:in-block-comment", "cut:after-quote",
	"delivery:multi-cut", "delivery:pair-cut", "delivery:stream-agrees", "check:denotation", "check:pos", "check:truncation",
	"config:base-non-10", "config:float-format-non-default",
}

var bases = map[string][]int{engine.Quick: {16}, engine.Thorough: {2, 8, 16, 36}}
var floatFormats = map[string][]string{
	engine.Quick:    {"single-float", "long-float"},
	engine.Thorough: {"single-float", "short-float", "long-float"},
}

func bound(tier string) string {
	n := len(tokens)
	if tier == engine.Thorough {
		return fmt.Sprintf("%d tokens: singles x 5 contexts x 3 trailers x 2 leaders; all %d ordered pairs x 5 contexts x every legal separator of 7 x 2 trailers; "+
			"all pairs x {top,list} x *read-base* {2,8,16,36} and x 3 non-default float formats; all triples over the %d-token core x {top,list} x 2 separators; "+
			"per text: whole string, bytes, ReadOne loop, read-from-string (2 modes) per form, cl:read on 2 stream kinds, ReadStream/ReadStream(one)/Push/Each at EVERY single cut "+
			"(+ EOF-with-data and empty-read variants), every fixed chunk size, every pair of cuts for texts <= 16 bytes, every truncation that ends inside a delimited construct",
			n, n*n, len(coreTokens))
	}
	return fmt.Sprintf("%d tokens: singles x {top,list} x 2 trailers (with every pair of cuts); all %d ordered pairs x {top,list} x separators {space, none, newline, line comment, block comment}; "+
		"all pairs x {vector, quoted list, nested list} x space; all pairs x top x *read-base* 16 and x float formats {single,long}; single tokens x *read-base* {2,8,36} and short-float; "+
		"per text: whole string, bytes, ReadOne loop, read-from-string (2 modes) per form, cl:read on 2 stream kinds, "+
		"ReadStream/ReadStream(one)/Push/Each in one piece and at EVERY single cut (+ last piece with io.EOF), every fixed chunk size, every truncation that ends inside a delimited construct. "+
		"Cut from the design: tab/CRLF separators, leading white space, pairs of cuts for two-token texts, the empty-read variant, bases 2/8/36 on pairs and triples are thorough only",
		n, n*n)
}

// spec: ctx|lead|trail|base|ff|mode|tokens|seps   (mode bits: 1 = also every pair of cuts (texts <= 16 bytes), 2 = also the empty-read variant)
func mkSpec(ctx, lead, trail int, c cfg, mode int, toks []int, sp []int) string {
	ts := make([]string, len(toks))
	for i, t := range toks {
		ts[i] = strconv.Itoa(t)
	}
	ss := make([]string, len(sp))
	for i, s := range sp {
		ss[i] = strconv.Itoa(s)
	}
	return fmt.Sprintf("%d|%d|%d|%d|%s|%d|%s|%s", ctx, lead, trail, c.base, c.ff, mode, strings.Join(ts, ","), strings.Join(ss, ","))
}

var leads = []string{"", " "}
var trails = []string{"", "\n", " "}

func configSensitive(t tok) bool {
	switch t.class {
	case "integer", "ratio", "float", "number-like", "symbol", "constant":
		return true
	}
	return strings.Contains(t.class, "integer") || strings.Contains(t.class, "symbol")
}

func enumerate(tier string, emit func(string)) {
	thorough := tier == engine.Thorough
	nt := len(tokens)
	ctxs := []int{0, 1}
	sepIdx := []int{0, 1, 2, 3, 4}
	trailIdx := []int{0, 1}
	leadIdx := []int{0}
	pairTrails := []int{0}
	single, mode, cmode := 1, 0, 0 // mode bits of singles, pairs, configuration pairs
	if thorough {
		single, mode, cmode = 3, 3, 2
		ctxs = []int{0, 1, 2, 3, 4}
		sepIdx = []int{0, 1, 2, 3, 4, 5, 6}
		trailIdx = []int{0, 1, 2}
		leadIdx = []int{0, 1}
		pairTrails = []int{0, 1}
	}
	// singles
	for _, ctx := range ctxs {
		for _, lead := range leadIdx {
			for _, trail := range trailIdx {
				for i := 0; i < nt; i++ {
					emit(mkSpec(ctx, lead, trail, defaultCfg, single, []int{i}, nil))
				}
			}
		}
	}
	// empty compound contexts: "()" "#()" ...
	for _, ctx := range ctxs[1:] {
		emit(mkSpec(ctx, 0, 0, defaultCfg, single, nil, nil))
	}
	// quick: the other three contexts with the plain separator only
	if !thorough {
		for _, ctx := range []int{2, 3, 4} {
			for i := 0; i < nt; i++ {
				emit(mkSpec(ctx, 0, 0, defaultCfg, single, []int{i}, nil))
				for j := 0; j < nt; j++ {
					emit(mkSpec(ctx, 0, 0, defaultCfg, mode, []int{i, j}, []int{0}))
				}
			}
		}
	}
	// pairs
	for _, ctx := range ctxs {
		for _, s := range sepIdx {
			for _, trail := range pairTrails {
				for i := 0; i < nt; i++ {
					for j := 0; j < nt; j++ {
						if seps[s].text == "" && !emptySepLegal(tokens[i], tokens[j]) {
							// two tokens written together although neither ends / starts with a delimiter: what
							// the text denotes (one token, two, or an error) is the reader's business, but every
							// delivery must agree with the whole-string read (mode bit 4: no denotation check)
							if ctx <= 1 && trail == pairTrails[0] {
								emit(mkSpec(ctx, 0, trail, defaultCfg, mode|4, []int{i, j}, []int{s}))
							}
							continue
						}
						emit(mkSpec(ctx, 0, trail, defaultCfg, mode, []int{i, j}, []int{s}))
					}
				}
			}
		}
	}
	// configurations
	cctx := []int{0}
	if thorough {
		cctx = []int{0, 1}
	}
	var cfgs []cfg
	for _, b := range bases[tier] {
		cfgs = append(cfgs, cfg{base: b, ff: "double-float"})
	}
	for _, f := range floatFormats[tier] {
		cfgs = append(cfgs, cfg{base: 10, ff: f})
	}
	if !thorough {
		// quick: the remaining bases and float format on single tokens only
		for _, c := range []cfg{{2, "double-float"}, {8, "double-float"}, {36, "double-float"}, {10, "short-float"}} {
			for i := 0; i < nt; i++ {
				emit(mkSpec(0, 0, 0, c, single, []int{i}, nil))
			}
		}
	}
	for _, c := range cfgs {
		for _, ctx := range cctx {
			for i := 0; i < nt; i++ {
				emit(mkSpec(ctx, 0, 0, c, single, []int{i}, nil))
			}
			for i := 0; i < nt; i++ {
				for j := 0; j < nt; j++ {
					if !configSensitive(tokens[i]) && !configSensitive(tokens[j]) {
						continue
					}
					emit(mkSpec(ctx, 0, 0, c, cmode, []int{i, j}, []int{0}))
				}
			}
		}
	}
	// triples over the core
	if thorough {
		for _, ctx := range []int{0, 1} {
			for _, s := range []int{0, 2} {
				for _, i := range coreTokens {
					for _, j := range coreTokens {
						for _, k := range coreTokens {
							emit(mkSpec(ctx, 0, 0, defaultCfg, 2, []int{i, j, k}, []int{s, s}))
						}
					}
				}
			}
		}
	}
}

type caseSpec struct {
	ctx   string
	lead  string
	trail string
	c     cfg
	mode  int
	toks  []tok
	seps  []sepT
}

func parseSpec(spec string) (cs caseSpec, err error) {
	p := strings.Split(spec, "|")
	if len(p) != 8 {
		return cs, fmt.Errorf("bad spec %q", spec)
	}
	num := func(s string, max int) int {
		n, e := strconv.Atoi(s)
		if e != nil || n < 0 || max <= n {
			err = fmt.Errorf("bad number %q in spec %q", s, spec)
			return 0
		}
		return n
	}
	cs.ctx = ctxNames[num(p[0], len(ctxNames))]
	cs.lead = leads[num(p[1], len(leads))]
	cs.trail = trails[num(p[2], len(trails))]
	cs.c.base = num(p[3], 37)
	cs.c.ff = p[4]
	cs.mode = num(p[5], 8)
	if p[6] != "" {
		for _, s := range strings.Split(p[6], ",") {
			cs.toks = append(cs.toks, tokens[num(s, len(tokens))])
		}
	}
	if p[7] != "" {
		for _, s := range strings.Split(p[7], ",") {
			cs.seps = append(cs.seps, seps[num(s, len(seps))])
		}
	}
	if err == nil && len(cs.toks) != 0 && len(cs.seps) != len(cs.toks)-1 {
		err = fmt.Errorf("separator count in spec %q", spec)
	}
	return
}

// run holds the per-case state of exec.
type run struct {
	readOnePos0 int // position ReadOne reports after the first form (-1 = not known)
	ctx         string
	res         *engine.Result
	t           text
	c           cfg
	seen        map[string]int
	order       []string
	first       map[string]string
}

func (r *run) fail(sig, detail string) {
	if r.seen[sig] == 0 {
		r.order = append(r.order, sig)
		r.first[sig] = detail
	}
	r.seen[sig]++
}

func (r *run) flush() {
	for _, sig := range r.order {
		d := fmt.Sprintf("text %q base=%d float=%s: %s", r.t.src, r.c.base, r.c.ff, r.first[sig])
		if 1 < r.seen[sig] {
			d += fmt.Sprintf(" (+%d more deliveries of this text with the same signature)", r.seen[sig]-1)
		}
		r.res.Fail(sig, d)
	}
}

func exec(spec string) (res engine.Result) {
	cs, err := parseSpec(spec)
	if err != nil {
		res.Fail("harness:bad-spec", err.Error())
		return
	}
	t := build(cs.ctx, cs.toks, cs.seps, cs.lead, cs.trail)
	if len(t.src) != len(t.ann) {
		res.Fail("harness:annotation-length", fmt.Sprintf("%q vs %q", t.src, t.ann))
		return
	}
	r := &run{readOnePos0: -1, ctx: cs.ctx, res: &res, t: t, c: cs.c, seen: map[string]int{}, first: map[string]string{}}
	r.all(cs.mode)
	r.flush()
	return
}

func (r *run) all(mode int) {
	res, t, c := r.res, r.t, r.c
	src := t.src
	n := len(src)
	if c.base != 10 {
		res.Hit("config:base-non-10")
	}
	if c.ff != "double-float" {
		res.Hit("config:float-format-non-default")
	}

	// (2) whole-string read against the generator's denotation
	whole := readString(src, c)
	res.Outcome = whole.String()
	var want []*cv // denotation, nil entries = unspecified
	for _, f := range t.forms {
		want = append(want, f.den(c))
	}
	wholeOK := whole.err == nil
	badForm := map[int]bool{} // forms whose whole-string read is already wrong (S3: not re-reported per delivery)
	diffOnly := mode&4 != 0
	if diffOnly {
		res.Hit("check:differential-only")
		if wholeOK {
			res.Hit("differential-only:accepted")
		} else {
			res.Hit("differential-only:refused")
		}
	} else if wholeOK && len(whole.objs) != len(t.forms) {
		// compare the forms both have, then name the first one that is missing
		m := len(whole.objs)
		if len(t.forms) < m {
			m = len(t.forms)
		}
		for i := 0; i < m; i++ {
			if want[i] == nil {
				continue
			}
			if shape, ww, gg, path := diffPath(want[i], whole.objs[i], nil); shape != "" {
				r.fail(fmt.Sprintf("api=ReadString check=denotation form=%s kind=value:%s", r.tokenAt(r.ctx, i, path), shape),
					fmt.Sprintf("form %d reads as %s, denotes %s (first difference: got %s, want %s)", i, whole.objs[i], want[i], gg, ww))
			}
		}
		name := "none:extra"
		if m < len(t.forms) {
			name = t.forms[m].class
			if m == len(t.forms)-1 && t.forms[m].end == len(src) {
				name += "@eof"
			}
		}
		r.fail(fmt.Sprintf("api=ReadString check=denotation form=%s kind=count", name),
			fmt.Sprintf("read %d forms, the text has %d: got %s ; denotes %s", len(whole.objs), len(t.forms), whole.String(), r.wantString(want)))
		wholeOK = false
	} else if wholeOK {
		for i, w := range want {
			if w == nil {
				continue
			}
			res.Hit("check:denotation")
			if shape, ww, gg, path := diffPath(w, whole.objs[i], nil); shape != "" {
				badForm[i] = true
				r.fail(fmt.Sprintf("api=ReadString check=denotation form=%s kind=value:%s", r.tokenAt(r.ctx, i, path), shape),
					fmt.Sprintf("form %d reads as %s, denotes %s (first difference: got %s, want %s)", i, whole.objs[i], w, gg, ww))
			}
		}
	} else {
		// the complete, well-formed text is refused
		r.fail(fmt.Sprintf("api=ReadString check=denotation form=%s kind=error:%s", r.culprit(), whole.errClass()),
			fmt.Sprintf("a complete text is refused: %s ; denotes %s", whole.String(), r.wantString(want)))
	}

	// bytes
	rb := readBytes(src, c)
	if k, d := compareSeq(&whole, &rb); k != "" {
		r.fail("api=Read check=vs-ReadString kind="+k, d)
	}

	if wholeOK && diffOnly {
		r.formAtATimeDiff(whole.objs)
		r.lispRead(whole.objs)
	} else if wholeOK {
		r.formAtATime(whole.objs, badForm)
		r.lispRead(whole.objs)
	} else {
		res.Hit("masked:form-at-a-time-by-whole-read-failure")
	}

	// stream deliveries: the whole text in one piece (k = n), then every single cut
	singleFails := map[int]bool{}
	var uncut outcome
	uncutKind := ""
	for k := n; 1 <= k; k-- {
		ctx := "none"
		cuts := []int{}
		if k < n {
			ctx = cutCtx(t.ann, k)
			cuts = []int{k}
			res.Hit("cut:" + ctx)
			if ctx != "between" {
				res.Nontrivial = true
			}
			switch ctx {
			case "in-token", "token-end", "in-sharp-number", "sharp-number-end", "after-dispatch":
				// a cut inside a token, the one place the carry-over is made for: name the token as well
				ctx += " token=" + family(t.tokenClassAt(k))
			}
		}
		st := readStream(src, c, &cutReader{data: []byte(src), cuts: cuts})
		kind, d := compareSeq(&whole, &st)
		if k == n {
			uncut, uncutKind = st, kind
		}
		switch {
		case kind != "" && k == n:
			// fails without any cut: what matters is how the text ends
			last := r.ctx
			if r.ctx == "top" && 0 < len(t.toks) {
				last = t.toks[len(t.toks)-1].class
				if t.forms[len(t.forms)-1].end != n {
					last += "+space"
				}
			}
			r.fail(fmt.Sprintf("api=ReadStream cut-in=none last=%s kind=%s", last, kind), "delivered in one piece, then (0, EOF): "+d)
		case kind != "" && uncutKind != "" && sameOutcome(&uncut, &st):
			// same wrong result as the delivery in one piece: reported there (S3)
			singleFails[k] = true
			res.Hit("masked:cut-by-uncut-stream-failure")
		case kind != "":
			singleFails[k] = true
			r.fail(fmt.Sprintf("api=ReadStream cut-in=%s kind=%s", ctx, kind), "delivered as "+showCuts(src, cuts)+": "+d)
		default:
			res.Hit("delivery:stream-agrees")
			if whole.err == nil && st.endPos != n {
				r.fail(fmt.Sprintf("api=ReadStream cut-in=%s kind=end-position", ctx),
					fmt.Sprintf("delivered as %s: final position %d, text has %d bytes", showCuts(src, cuts), st.endPos, n))
			}
		}
		// the last piece together with io.EOF, and an empty read at the cut: reported when the plain delivery of
		// the same pieces is right and the variant is not (otherwise it is the plain delivery's failure, S3)
		for _, variant := range []string{"eof-with-data", "empty-read"} {
			cr := &cutReader{data: []byte(src), cuts: cuts}
			if variant == "eof-with-data" {
				cr.eofWithData = true
			} else if k < n && mode&2 != 0 {
				cr.emptyAt = k
			} else {
				continue
			}
			v := readStream(src, c, cr)
			if vk, vd := compareSeq(&whole, &v); vk != "" {
				if kind != "" {
					res.Hit("masked:variant-by-plain-delivery")
				} else {
					r.fail(fmt.Sprintf("api=ReadStream variant=%s cut-in=%s kind=%s", variant, ctx, vk),
						"delivered as "+showCuts(src, cuts)+": "+vd)
				}
			}
		}
		// push / each: same block loop, compared with ReadStream on the same pieces (S3), reported when they
		// differ from both that and the whole-string read
		for _, api := range []string{"ReadStreamPush", "ReadStreamEach"} {
			var o outcome
			if api == "ReadStreamPush" {
				o = readStreamPush(src, c, &cutReader{data: []byte(src), cuts: cuts})
			} else {
				o = readStreamEach(src, c, &cutReader{data: []byte(src), cuts: cuts})
			}
			if k1, _ := compareSeq(&whole, &o); k1 != "" {
				if k2, d2 := compareSeq(&st, &o); k2 != "" {
					r.fail(fmt.Sprintf("api=%s cut-in=%s vs=ReadStream kind=%s", api, ctx, k2),
						"delivered as "+showCuts(src, cuts)+": differs from ReadStream on the same pieces and from ReadString: "+d2)
				} else {
					res.Hit("masked:push-each-same-as-ReadStream")
				}
			}
		}
		// one form from a stream
		if wholeOK && 0 < len(whole.objs) && !badForm[0] {
			o := readStreamOne(src, c, &cutReader{data: []byte(src), cuts: cuts})
			first := outcome{objs: whole.objs[:1]}
			switch k1, d1 := compareSeq(&first, &o); {
			case k1 != "" && kind != "":
				res.Hit("masked:stream-one-by-stream")
			case k1 != "":
				r.fail(fmt.Sprintf("api=ReadStream(one) cut-in=%s kind=%s", ctx, k1), "delivered as "+showCuts(src, cuts)+": "+d1)
			case !diffOnly && o.endPos != t.forms[0].end && k < t.forms[0].end && kind == "" && o.endPos == r.readOnePos0:
				// same wrong position as ReadOne on the string: reported there (S3)
				res.Hit("masked:stream-one-pos-by-ReadOne-pos")
			case !diffOnly && o.endPos != t.forms[0].end && k < t.forms[0].end && kind == "":
				// the position is only comparable when the cut lies inside the first form or before it
				r.fail(fmt.Sprintf("api=ReadStream(one) cut-in=%s check=pos form=%s delta=%s", ctx, t.forms[0].class, delta(o.endPos-t.forms[0].end)),
					fmt.Sprintf("delivered as %s: position %d after the first form, it ends at %d", showCuts(src, cuts), o.endPos, t.forms[0].end))
			}
		}
	}

	// multi-cut deliveries: fixed chunk sizes, pairs of cuts
	var multis [][]int
	for size := 1; size <= (n-1)/2; size++ {
		var cuts []int
		for k := size; k < n; k += size {
			cuts = append(cuts, k)
		}
		multis = append(multis, cuts)
	}
	nChunks := len(multis)
	if mode&1 != 0 && n <= 16 {
		for a := 1; a < n; a++ {
			for b := a + 1; b < n; b++ {
				multis = append(multis, []int{a, b})
			}
		}
	}
	for mi, cuts := range multis {
		if len(cuts) < 2 {
			continue
		}
		if mi < nChunks {
			res.Hit("delivery:multi-cut")
		} else {
			res.Hit("delivery:pair-cut")
		}
		st := readStream(src, c, &cutReader{data: []byte(src), cuts: cuts})
		kind, _ := compareSeq(&whole, &st)
		if kind == "" {
			continue
		}
		masked := false
		for _, k := range cuts {
			if singleFails[k] {
				masked = true
				break
			}
		}
		if masked {
			res.Hit("masked:multi-cut-by-single-cut")
			continue
		}
		// every cut alone is fine: minimise the set of cuts and report the contexts of what is left
		min := append([]int{}, cuts...)
		for i := 0; i < len(min) && 2 < len(min); {
			try := append(append([]int{}, min[:i]...), min[i+1:]...)
			o := readStream(src, c, &cutReader{data: []byte(src), cuts: try})
			if k2, _ := compareSeq(&whole, &o); k2 != "" {
				min = try
			} else {
				i++
			}
		}
		o := readStream(src, c, &cutReader{data: []byte(src), cuts: min})
		k2, d2 := compareSeq(&whole, &o)
		var ctxs []string
		for _, k := range min {
			ctxs = append(ctxs, cutCtx(t.ann, k))
		}
		r.fail(fmt.Sprintf("api=ReadStream cuts=multi cut-in=%s kind=%s", strings.Join(ctxs, "+"), k2),
			"every cut alone reads correctly; delivered as "+showCuts(src, min)+": "+d2)
	}

	if !diffOnly {
		r.truncations()
	}
}

// sameOutcome: same objects, or both an error of the same class.
func sameOutcome(a, b *outcome) bool {
	if a.err != nil || b.err != nil {
		return a.err != nil && b.err != nil && a.errClass() == b.errClass()
	}
	k, _ := compareObjs(a.objs, b.objs)
	return k == ""
}

// tokenAt names the token a difference belongs to: form index i of the text,
// path of child indexes inside that form.
func (r *run) tokenAt(ctx string, i int, path []int) string {
	idx := -1
	switch ctx {
	case "top":
		idx = i
	case "list", "vector":
		if 1 <= len(path) {
			idx = path[0]
		}
	case "quoted-list":
		if 2 <= len(path) && path[0] == 0 {
			idx = path[1]
		}
	case "nested":
		if 2 <= len(path) && path[0] == 1 {
			idx = path[1]
		}
	}
	if idx < 0 || len(r.t.toks) == 0 {
		return ctx
	}
	if len(r.t.toks) <= idx {
		idx = len(r.t.toks) - 1
	}
	name := r.t.toks[idx].class
	return name
}

// culprit: when the whole text is refused, name the first token that is
// refused or misread when read alone followed by a space; failing that, the
// last token when it is misread at the very end of a text.
func (r *run) culprit() string {
	bad := func(k tok, text string) bool {
		o := readString(text, r.c)
		if o.err != nil {
			return true
		}
		if d := k.den(r.c); d != nil {
			if len(o.objs) != 1 {
				return true
			}
			s, _, _ := diff(d, o.objs[0])
			return s != ""
		}
		return false
	}
	refused := func(k tok, text string) bool {
		o := readString(text, r.c)
		return o.err != nil
	}
	for _, k := range r.t.toks {
		if refused(k, k.text+" ") {
			return k.class
		}
	}
	for _, k := range r.t.toks {
		if bad(k, k.text+" ") {
			return k.class
		}
	}
	if n := len(r.t.toks); 0 < n && bad(r.t.toks[n-1], r.t.toks[n-1].text) {
		return r.t.toks[n-1].class + "@eof"
	}
	return "combination"
}

func (r *run) wantString(want []*cv) string {
	var parts []string
	for _, w := range want {
		if w == nil {
			parts = append(parts, "<unspecified>")
		} else {
			parts = append(parts, w.String())
		}
	}
	return "[" + strings.Join(parts, " ; ") + "]"
}

// formAtATime: ReadOne loop and read-from-string, form by form. The next
// read always starts at the generator's end offset of the previous form
// (S3/S9), so one wrong position is reported once.
// formAtATimeDiff reads one form at a time, each read continuing at the position the previous one reported, and
// compares the objects with the whole-string read (used where the harness has no denotation of its own: the
// reported positions are checked through the forms that follow).
func (r *run) formAtATimeDiff(whole []*cv) {
	c, src := r.c, r.t.src
	off := 0
	for i := 0; i <= len(whole); i++ {
		obj, pos, got, err := readOneAt(src, off, c)
		switch {
		case err != nil:
			o := outcome{err: err}
			r.fail(fmt.Sprintf("api=ReadOne check=vs-ReadString kind=error:%s", o.errClass()),
				fmt.Sprintf("ReadOne at offset %d (form %d): %s; ReadString gives %s", off, i, err.String(), showObjs(whole)))
			return
		case i == len(whole):
			if got {
				r.fail("api=ReadOne check=vs-ReadString kind=count:extra",
					fmt.Sprintf("ReadOne at offset %d returned one more form %s; ReadString gives %s", off, obj, showObjs(whole)))
			}
			return
		case !got:
			r.fail("api=ReadOne check=vs-ReadString kind=count:missing",
				fmt.Sprintf("ReadOne at offset %d returned no form; ReadString gives %s", off, showObjs(whole)))
			return
		}
		if shape, _, _ := diff(whole[i], obj); shape != "" {
			r.fail(fmt.Sprintf("api=ReadOne check=vs-ReadString kind=value:%s", shape),
				fmt.Sprintf("ReadOne at offset %d (continuing at the position the previous read reported) returned %s, ReadString gives %s", off, obj, showObjs(whole)))
			return
		}
		if pos <= off {
			r.fail("api=ReadOne check=vs-ReadString kind=pos:not-advancing", fmt.Sprintf("ReadOne at offset %d reported position %d", off, pos))
			return
		}
		r.res.Hit("check:pos-chained")
		off = pos
	}
}

func showObjs(objs []*cv) string {
	var p []string
	for _, o := range objs {
		p = append(p, o.String())
	}
	return "[" + strings.Join(p, " ") + "]"
}

func (r *run) formAtATime(whole []*cv, badForm map[int]bool) {
	t, c, src := r.t, r.c, r.t.src
	off := 0
	for i, f := range t.forms {
		// ReadOne
		obj, pos, got, err := readOneAt(src, off, c)
		switch {
		case err != nil:
			o := outcome{err: err}
			r.fail(fmt.Sprintf("api=ReadOne check=object form=%s kind=error:%s", f.class, o.errClass()),
				fmt.Sprintf("ReadOne at offset %d (form %d): %s", off, i, err.String()))
		case !got:
			r.fail(fmt.Sprintf("api=ReadOne check=object form=%s kind=missing", f.class),
				fmt.Sprintf("ReadOne at offset %d returned no form; form %d is %s", off, i, whole[i]))
		default:
			if shape, _, _ := diff(whole[i], obj); shape != "" {
				r.fail(fmt.Sprintf("api=ReadOne check=object form=%s kind=value:%s", f.class, shape),
					fmt.Sprintf("ReadOne at offset %d returned %s, ReadString gives %s", off, obj, whole[i]))
			} else {
				r.res.Hit("check:pos")
				if i == 0 {
					r.readOnePos0 = pos
				}
				if pos != f.end {
					r.fail(fmt.Sprintf("api=ReadOne check=pos form=%s delta=%s", f.class, delta(pos-f.end)),
						fmt.Sprintf("ReadOne at offset %d returned %s and position %d; the form ends at %d", off, obj, pos, f.end))
				}
			}
		}
		// read-from-string, both modes
		for _, preserve := range []bool{true, false} {
			obj, rel, err := readFromString(src, off, c, preserve)
			name := "read-from-string"
			if preserve {
				name += "(:preserve-whitespace)"
			}
			if err != nil {
				o := outcome{err: err}
				r.fail(fmt.Sprintf("api=%s check=object form=%s kind=error:%s", name, f.class, o.errClass()),
					fmt.Sprintf("on %q: %s", src[off:], err.String()))
				continue
			}
			if shape, _, _ := diff(whole[i], obj); shape != "" {
				r.fail(fmt.Sprintf("api=%s check=object form=%s kind=value:%s", name, f.class, shape),
					fmt.Sprintf("on %q returned %s, ReadString gives %s", src[off:], obj, whole[i]))
				continue
			}
			// acceptable positions: end of the form (bytes or characters); without
			// :preserve-whitespace anything up to the end of the following white space
			lo := f.end
			hi := f.end
			if !preserve {
				for hi < len(src) && strings.IndexByte(" \t\r\n", src[hi]) >= 0 {
					hi++
				}
			}
			ok := false
			for e := lo; e <= hi; e++ {
				if rel == e-off || rel == len([]rune(src[off:e])) {
					ok = true
				}
			}
			r.res.Hit("check:pos")
			if !ok {
				r.fail(fmt.Sprintf("api=%s check=pos form=%s delta=%s", name, f.class, delta(rel-(lo-off))),
					fmt.Sprintf("on %q returned %s and position %d; the form ends at %d", src[off:], obj, rel, lo-off))
			}
		}
		off = f.end
	}
	// after the last form: nothing more
	obj, _, got, err := readOneAt(src, off, c)
	switch {
	case err != nil:
		o := outcome{err: err}
		r.fail("api=ReadOne check=end kind=error:"+o.errClass(), fmt.Sprintf("ReadOne at offset %d (after the last form): %s", off, err.String()))
	case got:
		r.fail("api=ReadOne check=end kind=extra-object", fmt.Sprintf("ReadOne at offset %d (after the last form) returned %s", off, obj))
	}
}

func (r *run) lispRead(whole []*cv) {
	if len(whole) == 0 {
		return
	}
	src := r.t.src
	first := outcome{objs: whole[:1]}
	for _, kind := range []string{"string-stream", "reader"} {
		o := lispRead(src, r.c, kind == "string-stream", &cutReader{data: []byte(src)})
		if k, d := compareSeq(&first, &o); k != "" {
			r.fail(fmt.Sprintf("api=cl:read stream=%s form=%s kind=%s", kind, r.t.forms[0].class, k), "(read stream) on the whole text: "+d)
		}
	}
}

// truncations: every proper prefix that ends inside a delimited construct
// must be refused by every delivery.
func (r *run) truncations() {
	t, c := r.t, r.c
	for k := 1; k < len(t.src); k++ {
		ctx := cutCtx(t.ann, k)
		depth := depthAt(t.ann, k)
		demand := truncationDemanded(t.ann, k)
		if !demand {
			continue
		}
		r.res.Hit("check:truncation")
		d := "0"
		if 0 < depth {
			d = "1+"
		}
		prefix := t.src[:k]
		report := func(api string, o *outcome) {
			if o.err == nil {
				r.fail(fmt.Sprintf("api=%s trunc-in=%s depth=%s kind=silent", api, ctx, d),
					fmt.Sprintf("the text cut to %q is read without complaint as %s", prefix, o.String()))
			}
		}
		o := readString(prefix, c)
		report("ReadString", &o)
		o = readStream(prefix, c, &cutReader{data: []byte(prefix)})
		report("ReadStream", &o)
		if o.err != nil && 2 <= k {
			o = readStream(prefix, c, &cutReader{data: []byte(prefix), cuts: []int{k / 2}})
			report("ReadStream(2 pieces)", &o)
		}
		// form at a time: the complete forms, then an error
		off := 0
		for i, f := range t.forms {
			if k < f.end {
				break
			}
			_ = i
			off = f.end
		}
		_, _, got, err := readOneAt(prefix, off, c)
		if err == nil {
			what := "reports the end of the text"
			if got {
				what = "returns an object"
			}
			r.fail(fmt.Sprintf("api=ReadOne trunc-in=%s depth=%s kind=silent", ctx, d),
				fmt.Sprintf("ReadOne on %q from offset %d %s", prefix, off, what))
		}
	}
}

// family coarsens a token class for the cut-inside-a-token signatures.
func family(class string) string {
	switch class {
	case "integer", "ratio", "float", "number-like", "time":
		return "number"
	case "list", "dotted-list", "vector", "array":
		return "compound"
	case "symbol", "constant", "character", "radix-integer", "bit-vector", "pipe-symbol", "string", "":
		return class
	}
	return "quoted" // quote-of-x, function-of-x, backquote-of-x
}

// delta renders a position error: exact when it is one byte, else only its direction.
func delta(d int) string {
	switch {
	case d == 1 || d == -1:
		return fmt.Sprintf("%+d", d)
	case d < 0:
		return "short"
	}
	return "long"
}
