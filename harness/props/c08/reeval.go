package c08

// reeval.go: family "reeval" - EVERY special operator of the interpreter (every function whose arguments are not all
// evaluated before the call: 100+ in the packages common-lisp, gi, clos) in a piece of code that is evaluated again
// under DIFFERENT bindings. The oracle is differential and model-free: the n-th evaluation of the code with x = v must
// give what a FRESH copy of the same code, evaluated once with x = v, gives (the state reached from elsewhere against
// the state reached from the initial state). Templates are pure expressions of one variable x in {1, 2} with x in
// every position the operator itself evaluates. A sub-form that is compiled, cached or written back into the code at
// its first evaluation and keeps a VALUE of that evaluation shows as a repeated first result.

import (
	"fmt"
	"sort"
	"strings"

	"github.com/ohler55/slip"
	"verif/engine"
	"verif/lisp"
)

type reTmpl struct {
	op   string // operator under test (signature)
	id   string
	pre  string // definitions needed once per case (@ = unique prefix)
	expr string // pure expression of x
}

var reTmpls []reTmpl
var reByID = map[string]*reTmpl{}

func rt(op, expr string) {
	n := 0
	for _, t := range reTmpls {
		if t.op == op {
			n++
		}
	}
	reTmpls = append(reTmpls, reTmpl{op: op, id: fmt.Sprintf("%s#%d", op, n), expr: expr})
}

func rtp(op, pre, expr string) {
	rt(op, expr)
	reTmpls[len(reTmpls)-1].pre = pre
}

func init() {
	// conditionals
	rt("and", "(and x (+ x 1))")
	rt("and", "(and (> x 1) (* x 10))")
	rt("or", "(or (> x 1) (- x))")
	rt("or", "(or nil x)")
	rt("if", "(if (> x 1) (* x 10) (- x))")
	rt("if", "(if x (+ x 1))")
	rt("when", "(when (> x 1) 0 (* x 10))")
	rt("when", "(when x (+ x 5))")
	rt("unless", "(unless (> x 1) 0 (* x 10))")
	rt("cond", "(cond ((> x 1) (* x 10)) (t (- x)))")
	rt("cond", "(cond ((= x 5) 0) ((+ x 1)))")
	rt("case", "(case x (1 (+ x 10)) (2 (+ x 20)) (t 0))")
	rt("case", "(case (+ x 1) ((2 7) (list x 'two)) (otherwise (list x 'other)))")
	rt("ecase", "(ecase x (1 (+ x 10)) (2 (+ x 20)))")
	rt("typecase", "(typecase (if (= x 1) x \"s\") (fixnum (+ x 1)) (string (* x 100)) (t 0))")
	rt("etypecase", "(etypecase (if (= x 1) x \"s\") (fixnum (+ x 1)) (string (* x 100)))")
	// exits
	rt("block", "(block b (return-from b (+ x 1)) 0)")
	rt("block", "(block nil (when (> x 1) (return (* x 10))) x)")
	rt("return-from", "(block b (let ((a (* x 3))) (return-from b a)))")
	rt("return", "(dolist (e (list 5 6)) (return (+ e x)))")
	rt("tagbody", "(let ((r 0)) (tagbody (setq r x) (go out) (setq r 0) out) r)")
	rt("go", "(let ((r 0) (i 0)) (tagbody again (setq r (+ r x)) (setq i (+ i 1)) (when (< i 3) (go again))) r)")
	rt("unwind-protect", "(let ((a 0)) (unwind-protect (setq a x) (setq a (+ a 10))) a)")
	rt("ignore-errors", "(ignore-errors (+ x 1))")
	rt("ignore-errors", "(ignore-errors (/ 6 (- x 1)))")
	// sequencing
	rt("progn", "(progn 0 (+ x 1))")
	rt("prog", "(prog ((a x) (b 1)) (return (+ a b)))")
	rt("prog*", "(prog* ((a x) (b (+ a 1))) (return (* a b)))")
	rt("progv", "(progv (list '*@pv*) (list x) (symbol-value '*@pv*))")
	rt("multiple-value-prog1", "(multiple-value-list (multiple-value-prog1 (values x (+ x 1)) 0))")
	// binding
	rt("let", "(let ((a x) (b (+ x 1))) (* a b))")
	rt("let", "(let ((a (list x x))) a)")
	rt("let*", "(let* ((a x) (b (+ a 1))) (* a b))")
	rt("multiple-value-bind", "(multiple-value-bind (q r) (floor 7 (+ x 1)) (list q r))")
	rt("multiple-value-list", "(multiple-value-list (floor 7 (+ x 1)))")
	rt("multiple-value-call", "(multiple-value-call #'list (floor 7 (+ x 1)) x)")
	rt("multiple-value-setq", "(let (a b) (multiple-value-setq (a b) (floor 7 (+ x 1))) (list a b))")
	rt("nth-value", "(nth-value 1 (floor 7 (+ x 1)))")
	rt("nth-value", "(nth-value (- x 1) (values 10 20 30))")
	rt("the", "(the fixnum (+ x 1))")
	rt("declare", "(let ((a x)) (declare (fixnum a)) (+ a 1))")
	rt("with-standard-io-syntax", "(with-standard-io-syntax (+ x 1))")
	// assignment and places
	rt("setq", "(let ((a 0)) (setq a x) a)")
	rt("setq", "(let ((a 0) (b 0)) (setq a x b (+ a 1)) (list a b))")
	rt("psetq", "(let ((a 5) (b 0)) (psetq a x b (+ a 1)) (list a b))")
	rt("setf", "(let ((a 0)) (setf a (+ x 1)) a)")
	rt("setf", "(let ((l (list 0 0))) (setf (car l) x (cadr l) (+ x 1)) l)")
	rt("setf", "(let ((l (list 0 0 0))) (setf (nth x l) 9) l)")
	rt("setf", "(let ((h (make-hash-table))) (setf (gethash x h) (+ x 1)) (list (gethash 1 h) (gethash 2 h)))")
	rt("setf", "(let ((v (make-array 3 :initial-element 0))) (setf (aref v x) 7) (coerce v 'list))")
	rt("psetf", "(let ((l (list 0 0))) (psetf (car l) x (cadr l) (+ x 1)) l)")
	rt("incf", "(let ((a 10)) (incf a x) a)")
	rt("incf", "(let ((l (list 1 2 3))) (incf (nth x l) 5) l)")
	rt("incf", "(let ((a x)) (incf a) a)")
	rt("decf", "(let ((a 10)) (decf a x) a)")
	rt("decf", "(let ((l (list 1 2 3))) (decf (nth x l) 5) l)")
	rt("push", "(let ((l (list 0))) (push x l) l)")
	rt("push", "(let ((l (list (list 0) (list 1) (list 2)))) (push 9 (nth x l)) l)")
	rt("pop", "(let ((l (list (+ x 1) 2))) (list (pop l) l))")
	rt("pop", "(let ((l (list (list 0 1) (list 2 3) (list 4 5)))) (list (pop (nth x l)) l))")
	rt("pushnew", "(let ((l (list 1))) (pushnew x l) l)")
	rt("shiftf", "(let ((a x) (b 5)) (list (shiftf a b 7) a b))")
	rt("shiftf", "(let ((l (list 1 2 3))) (shiftf (nth x l) 9) l)")
	rt("rotatef", "(let ((a x) (b 5)) (rotatef a b) (list a b))")
	rt("rotatef", "(let ((l (list 1 2 3))) (rotatef (nth 0 l) (nth x l)) l)")
	rt("getf", "(getf (list :a x :b 5) :a)")
	rt("getf", "(let ((pl (list :a 1 :b 2))) (getf pl (if (= x 1) :a :b)))")
	rt("getf", "(let ((pl (list :a 1))) (setf (getf pl :b) x) pl)")
	rt("remf", "(let ((pl (list :a 1 :b 2))) (remf pl (if (= x 1) :a :b)) pl)")
	rt("get", "(progn (setf (get '@gs 'p) (+ x 1)) (get '@gs 'p))")
	rt("get", "(progn (setf (get '@gs 'p1) 11) (setf (get '@gs 'p2) 22) (get '@gs (if (= x 1) 'p1 'p2)))")
	rt("remprop", "(progn (setf (get '@gs 'q1) 1) (setf (get '@gs 'q2) 2) (remprop '@gs (if (= x 1) 'q1 'q2)) (list (get '@gs 'q1) (get '@gs 'q2)))")
	rt("addf", "(let ((l (list 1))) (addf l x) l)")
	rt("addnew", "(let ((l (list 1))) (addnew x l) l)")
	// iteration
	rt("dotimes", "(let ((s 0)) (dotimes (i (+ x 2) s) (setq s (+ s i))))")
	rt("dotimes", "(let ((s 0)) (dotimes (i 3) (setq s (+ s x))) s)")
	rt("dotimes", "(dotimes (i 2 (* x 7)))")
	rt("dolist", "(let ((s 0)) (dolist (e (list x 2 3) s) (setq s (+ s e))))")
	rt("dolist", "(let ((s 0)) (dolist (e '(1 2)) (setq s (+ s (* e x)))) s)")
	rt("do", "(do ((i 0 (+ i 1)) (s 0 (+ s x))) ((> i x) s))")
	rt("do", "(do ((i x (+ i x))) ((> i 6) (list i x)))")
	rt("do*", "(do* ((i 0 (+ i 1)) (s x (+ s i))) ((> i x) s))")
	rt("dovector", "(let ((s 0)) (dovector (e (vector x 2)) (setq s (+ s e))) s)")
	rt("loop", "(let ((i 0)) (loop (setq i (+ i x)) (when (> i 5) (return i))))")
	// functions and data
	rt("lambda", "(funcall (lambda (a) (+ a x)) 1)")
	rt("lambda", "(mapcar (lambda (a) (* a x)) (list 1 2))")
	rt("lambda", "(funcall (lambda (a &optional (b (+ x 1))) (list a b)) 0)")
	rt("function", "(funcall (function (lambda (a) (* a x))) 2)")
	rt("quote", "(list 'a x '(1 2))")
	rt("backquote", "`(a ,x ,@(list x x))")
	rt("backquote", "`(1 (2 ,(+ x 1)) #(3))")
	rt("backquote", "`(,@(if (> x 1) (list x) nil) z)")
	rt("eval", "(eval (list '+ x 1))")
	rt("eval", "(eval `(let ((q ,x)) (* q q)))")
	// streams
	rt("with-input-from-string", "(with-input-from-string (s (if (= x 1) \"11\" \"22\")) (read s))")
	rt("with-input-from-string", "(with-input-from-string (s \"1234\" :start x) (read s))")
	rt("with-input-from-string", "(with-input-from-string (s \"1234\" :end (+ x 1)) (read s))")
	rt("with-output-to-string", "(with-output-to-string (s) (princ x s) (princ (+ x 1) s))")
	rt("with-open-stream", "(with-open-stream (s (make-string-input-stream (if (= x 1) \"11\" \"22\"))) (read s))")
	rt("with-input-from-octets", "(with-input-from-octets (s (coerce (list (+ x 64) 66) 'octets)) (read-byte s))")
	rt("pretty-print", "(pretty-print (list x 2) nil)")
	// objects
	rtp("with-slots", "(defclass @k () ((a :initarg :a) (b :initarg :b)))", "(with-slots (a b) (make-instance '@k :a x :b 3) (list a (* a b)))")
	rtp("with-slots", "(defclass @k () ((a :initarg :a)))", "(let ((i (make-instance '@k :a 0))) (with-slots (a) i (setq a (+ x 1))) (slot-value i 'a))")
	rtp("send", "(defflavor @fl ((a 1)) () :gettable-instance-variables :settable-instance-variables :initable-instance-variables)",
		"(let ((i (make-instance '@fl :a x))) (send i :set-a (+ (send i :a) 10)) (send i :a))")
	// concurrency primitives (deterministic uses)
	rt("with-mutex-lock", "(with-mutex-lock (make-mutex) (+ x 1))")
	rt("with-mutex-lock", "(let ((m (make-mutex)) (a 0)) (with-mutex-lock m (setq a x)) (with-mutex-lock m (setq a (+ a x))) a)")
	rt("select", "(let ((c (make-channel 1))) (channel-push c (+ x 1)) (select (c v (* v 10))))")
	rt("select", "(let ((c (make-channel 1)) (d (make-channel 1))) (channel-push (if (= x 1) c d) x) (select (c v (list 'c v)) (d v (list 'd v))))")
	rt("run", "(let ((c (make-channel 1))) (run (channel-push c (+ x 1))) (channel-pop c))")
	rt("recover", "(recover (+ x 1) (e 0))")
	rt("recover", "(recover (/ 6 (- x 1)) (e 'caught))")
	for i := range reTmpls {
		reByID[reTmpls[i].id] = &reTmpls[i]
	}
}

// How the code is held and evaluated again.
var reModes = []string{
	"defun",    // (defun F (x) T), F called with each value in turn
	"compdefun", // the same, the defun form compiled (Code.Compile) first
	"lambda",   // (setq F (lambda (x) T)), funcall
	"code",     // one Code object reading a global, evaluated again after the global changed
	"compcode", // the same, compiled
	"loop",     // T inside a dolist body whose variable is x
	"nested",   // T inside a function called from a function: (defun G (x) (list (F x) (F (- 3 x))))
}

var reOrders = []string{"121", "212"}

func enumReeval(tier string, emit func(string)) {
	for _, t := range reTmpls {
		for _, m := range reModes {
			for _, o := range reOrders {
				emit("reeval|" + t.id + "|" + m + "|" + o)
			}
		}
	}
}

func reevalOps() string {
	set := map[string]bool{}
	for _, t := range reTmpls {
		set[t.op] = true
	}
	var ops []string
	for o := range set {
		ops = append(ops, o)
	}
	sort.Strings(ops)
	return fmt.Sprintf("%d templates over %d special operators (%s)", len(reTmpls), len(ops), strings.Join(ops, " "))
}

type reOut struct {
	val string
	err *lisp.Err
}

func (o reOut) String() string {
	if o.err != nil {
		return "error " + o.err.Class + ": " + o.err.Message
	}
	return o.val
}

func reRun(scope *slip.Scope, src string) reOut {
	obj, err := lisp.EvalIn(scope, src)
	if err != nil {
		return reOut{err: err}
	}
	return reOut{val: lisp.Show(primary(obj))}
}

// primary: the primary value (the nested mode puts results into a list, which keeps the primary value only).
func primary(obj slip.Object) slip.Object {
	if vs, ok := obj.(slip.Values); ok {
		if len(vs) == 0 {
			return nil
		}
		return vs[0]
	}
	return obj
}

// reFresh: a fresh copy of the code, evaluated ONCE with x = v.
func reFresh(t *reTmpl, mode string, v int, uniq func(string) string) reOut {
	scope := slip.NewScope()
	if t.pre != "" {
		if o := reRun(scope, uniq(t.pre)); o.err != nil {
			return o
		}
	}
	switch mode {
	case "loop":
		return reRun(scope, fmt.Sprintf("(let ((r nil)) (dolist (x (list %d)) (setq r %s)) r)", v, uniq(t.expr)))
	case "code", "compcode":
		return reRun(scope, fmt.Sprintf("(progn (setq x %d) %s)", v, uniq(t.expr)))
	}
	return reRun(scope, uniq(fmt.Sprintf("(progn (defun @fresh (x) %s) (@fresh %d))", t.expr, v)))
}

func execReeval(spec string) (res engine.Result) {
	parts := strings.Split(spec, "|")
	if len(parts) != 4 || reByID[parts[1]] == nil {
		res.Fail("harness:bad-spec", spec)
		return
	}
	t, mode, order := reByID[parts[1]], parts[2], parts[3]
	var vals []int
	for _, c := range order {
		vals = append(vals, int(c-'0'))
	}
	n := 0
	uniqFor := func() func(string) string {
		n++
		p := uniqPrefix(fmt.Sprintf("%s#%d", spec, n))
		return func(s string) string { return strings.ReplaceAll(s, "@", p) }
	}
	// expected: fresh copies
	want := map[int]reOut{}
	for _, v := range vals {
		if _, has := want[v]; !has {
			want[v] = reFresh(t, mode, v, uniqFor())
		}
	}
	if want[1].err != nil && want[2].err != nil {
		res.Hit("reeval-template-inert")
		res.Outcome = "inert: " + want[1].String()
		return
	}
	// observed: ONE copy of the code evaluated len(vals) times
	uniq := uniqFor()
	scope := slip.NewScope()
	var got []reOut
	fail := func(kind, detail string) {
		res.Fail(fmt.Sprintf("reeval op=%s mode=%s kind=%s", t.op, mode, kind), spec+": "+detail)
	}
	if t.pre != "" {
		if o := reRun(scope, uniq(t.pre)); o.err != nil {
			fail("prelude-error", o.String())
			return
		}
	}
	evalCode := func(code slip.Code) (o reOut) {
		defer func() {
			if rec := recover(); rec != nil {
				o = reOut{err: lisp.ErrFromRecovered(rec)}
			}
		}()
		return reOut{val: lisp.Show(primary(code.Eval(scope, nil)))}
	}
	readCode := func(src string, compile bool) (code slip.Code, o reOut) {
		defer func() {
			if rec := recover(); rec != nil {
				o = reOut{err: lisp.ErrFromRecovered(rec)}
			}
		}()
		code = slip.ReadString(src, scope)
		if compile {
			code.Compile()
		}
		return
	}
	expr := uniq(t.expr)
	switch mode {
	case "defun", "compdefun", "nested":
		def, o := readCode(uniq("(defun @f (x) ")+expr+")", mode == "compdefun")
		if o.err == nil {
			o = evalCode(def)
		}
		if o.err != nil {
			fail("definition-error", o.String())
			return
		}
		if mode == "nested" {
			if o = reRun(scope, uniq("(defun @g (x) (list (@f x) (@f (- 3 x))))")); o.err != nil {
				fail("definition-error", o.String())
				return
			}
		}
		for _, v := range vals {
			if mode == "nested" {
				o := reRun(scope, uniq(fmt.Sprintf("(@g %d)", v)))
				got = append(got, o)
				continue
			}
			got = append(got, reRun(scope, uniq(fmt.Sprintf("(@f %d)", v))))
		}
	case "lambda":
		if o := reRun(scope, uniq("(setq @fv (lambda (x) ")+expr+"))"); o.err != nil {
			fail("definition-error", o.String())
			return
		}
		for _, v := range vals {
			got = append(got, reRun(scope, uniq(fmt.Sprintf("(funcall @fv %d)", v))))
		}
	case "code", "compcode":
		code, o := readCode(expr, mode == "compcode")
		if o.err != nil {
			fail("read-error", o.String())
			return
		}
		for _, v := range vals {
			if o := reRun(scope, fmt.Sprintf("(setq x %d)", v)); o.err != nil {
				fail("setq-error", o.String())
				return
			}
			got = append(got, evalCode(code))
		}
	case "loop":
		src := fmt.Sprintf("(let ((r nil)) (dolist (x (list %s)) (setq r (cons %s r))) (reverse r))",
			strings.Trim(strings.Join(strings.Split(order, ""), " "), " "), expr)
		obj, err := lisp.EvalIn(scope, src)
		if err != nil {
			// an error inside the loop: compare only when every fresh copy fails too
			got = append(got, reOut{err: err})
		} else if l, ok := obj.(slip.List); ok {
			for _, e := range l {
				got = append(got, reOut{val: lisp.Show(e)})
			}
		} else {
			got = append(got, reOut{val: lisp.Show(obj)})
		}
	default:
		res.Fail("harness:bad-spec", spec)
		return
	}
	var obs []string
	for _, g := range got {
		obs = append(obs, g.String())
	}
	res.Outcome = strings.Join(obs, " ; ")
	res.Hit("re-evaluated-under-new-bindings")
	res.Hit("reeval-cases")
	res.Nontrivial = true
	if mode == "loop" && len(got) == 1 && got[0].err != nil {
		for _, v := range vals {
			if want[v].err == nil {
				continue
			}
			return // some fresh copy fails too: the loop stops there, nothing to compare
		}
		fail("error:"+got[0].err.Class, fmt.Sprintf("the loop over x in %s fails (%s), every fresh copy gives a value", order, got[0].String()))
		return
	}
	if len(got) != len(vals) {
		fail("wrong-count", fmt.Sprintf("%d results for %d evaluations: %s", len(got), len(vals), res.Outcome))
		return
	}
	for i, v := range vals {
		w := want[v]
		g := got[i]
		wantS, gotS := w.String(), g.String()
		if mode == "nested" {
			w2 := want[3-v]
			if w.err != nil || w2.err != nil {
				continue // the list cannot be built when one of the two calls fails
			}
			wantS = "(" + w.val + " " + w2.val + ")"
		}
		switch {
		case g.err != nil && g.err.GoFault:
			fail("go-fault", fmt.Sprintf("evaluation #%d (x=%d) => %s", i+1, v, gotS))
			return
		case (w.err == nil) != (g.err == nil):
			fail("value-vs-error", fmt.Sprintf("evaluation #%d (x=%d) of  %s  => %s; a fresh copy of the code evaluated once with x=%d => %s", i+1, v, t.expr, gotS, v, wantS))
			return
		case w.err != nil:
			if w.err.Class != g.err.Class {
				fail("other-error", fmt.Sprintf("evaluation #%d (x=%d) of  %s  => %s; a fresh copy => %s", i+1, v, t.expr, gotS, wantS))
				return
			}
		case gotS != wantS:
			kind := "differs-from-fresh-copy"
			if 0 < i && gotS == obs[0] && vals[0] != v {
				kind = "keeps-first-evaluation"
			}
			fail(kind, fmt.Sprintf("evaluation #%d (x=%d) of  %s  => %s; a fresh copy of the code evaluated once with x=%d => %s (all evaluations: %s)", i+1, v, t.expr, gotS, v, wantS, res.Outcome))
			return
		}
	}
	return
}
