//go:build verif

package c10

// builtin.go: hand-written step sequences (static phase, spec "steps|<k>") for the parts of the specification that do
// not fit the BFS alphabets:
//
//   - user methods on the BUILT-IN generic functions no-applicable-method and no-next-method: slip calls them (uax.go,
//     call-next-method.go), so "runs exactly the applicable methods" includes them - called when and only when no
//     method / no next method is applicable, with the arguments of the call, and gone on the very next call after
//     remove-method;
//   - find-method with qualifiers and errorp;
//   - next-method-p / call-next-method in a :before or primary method reached through a NESTED call (of the same or of
//     another generic function) while an :around method of the outer call is running: the documented error, never a
//     continuation of the OUTER call;
//   - (eql x) specialisers: slip rejects them at defmethod; demanded is only that a rejected defmethod leaves the
//     dispatch as it was and an accepted one is honoured.
//
// Every user method put on a built-in generic function only acts on a symbol that is unique to the case and hands
// every other call on, so a method that could not be removed again does not disturb the cases that follow in the
// same worker process.

import (
	"fmt"
	"os"
	"strings"
	"sync/atomic"

	"verif/engine"
	"verif/lisp"
)

type step struct {
	src   string
	val   string // expected lisp.Show of the value ("" = not checked)
	err   string // "" = no error expected; "any" = any Lisp error; "*cnm" = the class slip signals for call-next-method outside an :around method; else a class the condition must be of
	trace string // expected trace, comma separated ("-" = not checked)
	what  string // what the step shows (part of the signature)
}

type stepCase struct {
	name  string
	steps []step
}

var stepCases = []stepCase{
	{"no-applicable-method-user-around-method", []step{
		{src: "(defgeneric @g (x)) (defmethod @g ((x fixnum)) (tr 'pf) 'pf)", trace: "-"},
		{src: "(@g '@u)", err: "no-applicable-method-error", trace: "", what: "default-before-any-user-method"},
		{src: "(defmethod no-applicable-method :around ((gf t) &rest args) (if (equal args '(@u)) (progn (tr 'nam) (list 'nam args)) (call-next-method)))", trace: "-"},
		{src: "(@g '@u)", val: "(nam (@u))", trace: "nam", what: "user-method-called-with-the-arguments-of-the-call"},
		{src: "(@g '@u)", val: "(nam (@u))", trace: "nam", what: "user-method-called-again"},
		{src: "(@g 1)", val: "pf", trace: "pf", what: "user-method-not-called-when-a-method-is-applicable"},
		{src: "(@g \"other\")", err: "no-applicable-method-error", trace: "", what: "user-method-hands-on-to-the-default"},
		{src: "(remove-method 'no-applicable-method (find-method 'no-applicable-method '(:around) '(t)))", trace: "-"},
		{src: "(@g '@u)", err: "no-applicable-method-error", trace: "", what: "removed-user-method-still-runs"},
	}},
	{"no-applicable-method-user-primary-on-function", []step{
		{src: "(defgeneric @g (x)) (defmethod @g ((x fixnum)) (tr 'pf) 'pf)", trace: "-"},
		{src: "(defmethod no-applicable-method ((gf function) &rest args) (if (equal args '(@u)) (progn (tr 'namp) (list 'namp args)) (error \"no applicable method\")))", trace: "-"},
		{src: "(@g '@u)", val: "(namp (@u))", trace: "namp", what: "user-method-called-with-the-arguments-of-the-call"},
		{src: "(@g 1)", val: "pf", trace: "pf", what: "user-method-not-called-when-a-method-is-applicable"},
		{src: "(remove-method 'no-applicable-method (find-method 'no-applicable-method '() '(function)))", trace: "-"},
		{src: "(@g '@u)", err: "no-applicable-method-error", trace: "", what: "removed-user-method-still-runs"},
	}},
	{"no-next-method-user-around-method", []step{
		{src: "(defgeneric @g (x)) (defmethod @g :around ((x symbol)) (tr 'ar) (list 'ar (call-next-method x)))", trace: "-"},
		{src: "(@g '@u)", err: "any", trace: "ar", what: "default-before-any-user-method"},
		{src: "(defmethod no-next-method :around ((gf t) (m t) &rest args) (if (equal args '(@u)) (progn (tr 'nnm) (list 'nnm args)) (call-next-method)))", trace: "-"},
		{src: "(@g '@u)", val: "(ar (nnm (@u)))", trace: "ar,nnm", what: "user-method-called-with-the-arguments-of-call-next-method"},
		{src: "(defmethod @g ((x symbol)) (tr 'ps) 'ps)", trace: "-"},
		{src: "(@g '@u)", val: "(ar ps)", trace: "ar,ps", what: "user-method-not-called-when-there-is-a-next-method"},
		{src: "(remove-method '@g (find-method '@g '() '(symbol)))", trace: "-"},
		{src: "(@g '@u)", val: "(ar (nnm (@u)))", trace: "ar,nnm", what: "user-method-called-after-the-primary-was-removed"},
		{src: "(remove-method 'no-next-method (find-method 'no-next-method '(:around) '(t t)))", trace: "-"},
		{src: "(@g '@u)", err: "any", trace: "ar", what: "removed-user-method-still-runs"},
	}},
	{"find-method-qualifiers-and-errorp", []step{
		{src: "(defgeneric @g (x y)) (defmethod @g :before ((x fixnum) (y real)) (tr 'b)) (defmethod @g ((x fixnum) (y real)) (tr 'p) 'p) (defmethod @g :after ((x fixnum) (y real)) (tr 'a))", trace: "-"},
		{src: "(@g 1 2)", val: "p", trace: "b,p,a", what: "all-three"},
		{src: "(find-method '@g '(:around) '(fixnum real))", val: "nil", trace: "", what: "absent-qualifier-without-errorp"},
		{src: "(find-method '@g '(:around) '(fixnum real) t)", err: "any", trace: "", what: "absent-qualifier-with-errorp"},
		{src: "(find-method '@g '(:before) '(fixnum fixnum) nil)", val: "nil", trace: "", what: "absent-tuple-without-errorp"},
		{src: "(remove-method #'@g (find-method #'@g '(:before) (list (find-class 'fixnum) (find-class 'real)) t))", trace: "-"},
		{src: "(@g 1 2)", val: "p", trace: "p,a", what: "before-removed"},
		{src: "(find-method '@g '(:before) '(fixnum real))", val: "nil", trace: "", what: "removed-method-not-found"},
		{src: "(remove-method '@g (find-method '@g '(:after) '(fixnum real)))", trace: "-"},
		{src: "(@g 1 2)", val: "p", trace: "p", what: "after-removed"},
		{src: "(remove-method '@g (find-method '@g nil '(fixnum real)))", trace: "-"},
		{src: "(@g 1 2)", err: "no-applicable-method-error", trace: "", what: "primary-removed"},
	}},
	{"next-method-p-in-a-before-method-of-a-nested-call", []step{
		{src: "(defgeneric @g (x)) (defmethod @g ((x fixnum)) (tr 'pf) 'pf) (defmethod @g :before ((x string)) (tr 'bs) (tr (if (next-method-p) 'has-next 'no-next))) " +
			"(defmethod @g ((x string)) (tr 'ps) 'ps) (defmethod @g :around ((x fixnum)) (tr 'ar) (list 'ar (@g \"s\") (call-next-method x)))", trace: "-"},
		{src: "(@g \"s\")", err: "*cnm", trace: "bs", what: "top-level"},
		{src: "(@g 1)", err: "*cnm", trace: "ar,bs", what: "nested-below-an-around-of-the-outer-call"},
	}},
	{"call-next-method-in-a-primary-of-another-generic-function-called-from-an-around", []step{
		{src: "(defgeneric @g (x)) (defgeneric @gh (x)) (defmethod @g ((x fixnum)) (tr 'gp) (list 'gp (call-next-method x))) (defmethod @gh ((x fixnum)) (tr 'hp) 'hp) " +
			"(defmethod @gh :around ((x fixnum)) (tr 'ha) (list 'ha (@g x) (call-next-method x)))", trace: "-"},
		{src: "(@g 1)", err: "*cnm", trace: "gp", what: "top-level"},
		{src: "(@gh 1)", err: "*cnm", trace: "ha,gp", what: "nested-below-an-around-of-the-outer-call"},
	}},
	{"call-next-method-in-a-primary-of-the-same-generic-function-reached-by-a-nested-call", []step{
		{src: "(defgeneric @g (x)) (defmethod @g ((x fixnum)) (tr 'kf) 'kf) (defmethod @g ((x string)) (tr 'ks) (list 'ks (call-next-method 1))) " +
			"(defmethod @g :around ((x fixnum)) (tr 'ka) (list 'ka (@g \"s\") (call-next-method x)))", trace: "-"},
		{src: "(@g \"s\")", err: "*cnm", trace: "ks", what: "top-level"},
		{src: "(@g 1)", err: "*cnm", trace: "ka,ks", what: "nested-below-an-around-of-the-outer-call"},
	}},
}

var stepCtr int64

func stepsEnumerate(emit func(string)) {
	for i := range stepCases {
		emit(fmt.Sprintf("steps|%d", i))
	}
	emit("eql|0")
}

func execSteps(spec string) (res engine.Result) {
	var k int
	if _, err := fmt.Sscanf(spec, "steps|%d", &k); err != nil || k < 0 || len(stepCases) <= k {
		res.Fail("harness:bad-spec", spec)
		return
	}
	c := stepCases[k]
	tag := fmt.Sprintf("c10s%dx%d", os.Getpid(), atomic.AddInt64(&stepCtr, 1))
	ren := func(s string) string {
		return strings.ReplaceAll(strings.ReplaceAll(strings.ReplaceAll(s, "@gh", tag+"h"), "@g", tag), "@u", tag+"u")
	}
	res.Nontrivial = true
	res.Hit("steps:" + c.name)
	defer func() {
		_, _ = lisp.Eval("(fmakunbound '" + tag + ")")
		_, _ = lisp.Eval("(fmakunbound '" + tag + "h)")
	}()
	var outcome, done []string
	for i, st := range c.steps {
		lisp.ResetTrace()
		resetDepth()
		v, err := lisp.Eval("(progn " + ren(st.src) + ")")
		got := strings.Join(lisp.Trace(), ",")
		done = append(done, ren(st.src))
		sig := func(kind string) string {
			what := st.what
			if what == "" {
				what = fmt.Sprintf("step-%d", i+1)
			}
			return fmt.Sprintf("steps case=%s at=%s kind=%s", c.name, what, kind)
		}
		detail := func(s string) string { return fmt.Sprintf("%s; after: %s", s, trunc(strings.Join(done, " "), 1500)) }
		switch {
		case err != nil && err.GoFault:
			res.Fail(sig("go-fault"), detail(err.String()))
		case st.err == "" && err != nil:
			res.Fail(sig("error:"+err.Class), detail("=> "+err.String()))
		case st.err != "" && err == nil:
			res.Fail(sig("no-error"), detail(fmt.Sprintf("=> %s [%s], required: an error (%s) after [%s]", lisp.Show(v), got, st.err, st.trace)))
		case st.err == "*cnm" && err.Class != cnmOutsideClass():
			res.Fail(sig("error-class:"+err.Class), detail("=> "+err.String()+", required: the error of call-next-method outside an :around method ("+cnmOutsideClass()+")"))
		case st.err != "" && st.err != "any" && st.err != "*cnm" && !err.IsA(st.err):
			res.Fail(sig("error-class:"+err.Class), detail("=> "+err.String()+", required: "+st.err))
		case st.trace != "-" && got != ren(st.trace):
			res.Fail(sig("wrong-method-sequence"), detail(fmt.Sprintf("ran [%s], required [%s]", got, ren(st.trace))))
		case err == nil && st.val != "" && lisp.Show(v) != ren(st.val):
			res.Fail(sig("wrong-value"), detail(fmt.Sprintf("=> %s, required %s", lisp.Show(v), ren(st.val))))
		}
		if 0 < len(res.Failures) {
			break // what follows depends on this step
		}
		if err != nil {
			outcome = append(outcome, "ERR:"+err.Class)
		} else {
			outcome = append(outcome, got)
		}
	}
	res.Outcome = strings.ReplaceAll(strings.Join(outcome, ";"), tag, "@")
	return
}

// execEql: a method specialised on (eql 3). Common Lisp ranks it before every class; slip rejects the lambda list.
// Both are admissible (the statement speaks of classes); a defmethod that is accepted must be honoured, one that is
// rejected must leave the dispatch as it was.
func execEql(spec string) (res engine.Result) {
	tag := fmt.Sprintf("c10e%dx%d", os.Getpid(), atomic.AddInt64(&stepCtr, 1))
	defer func() { _, _ = lisp.Eval("(fmakunbound '" + tag + ")") }()
	res.Nontrivial = true
	res.Hit("steps:eql-specializer")
	if _, err := lisp.Eval(fmt.Sprintf("(progn (defgeneric %s (x)) (defmethod %s ((x fixnum)) (tr 'pf) 'pf) (%s 3))", tag, tag, tag)); err != nil {
		res.Fail("steps case=eql-specializer kind=definition-error:"+err.Class, err.String())
		return
	}
	_, derr := lisp.Eval(fmt.Sprintf("(defmethod %s ((x (eql 3))) (tr 'e3) 'e3)", tag))
	want3 := "e3"
	if derr != nil {
		want3 = "pf"
		res.Hit("eql-specializer-rejected-by-defmethod")
		if derr.GoFault {
			res.Fail("steps case=eql-specializer kind=go-fault", derr.String())
		}
	} else {
		res.Hit("eql-specializer-accepted")
	}
	for _, probe := range []struct{ arg, want string }{{"3", want3}, {"4", "pf"}, {"3", want3}} {
		lisp.ResetTrace()
		v, err := lisp.Eval(fmt.Sprintf("(%s %s)", tag, probe.arg))
		got := strings.Join(lisp.Trace(), ",")
		switch {
		case err != nil:
			res.Fail("steps case=eql-specializer kind=error:"+err.Class+" defmethod="+errDigest(derr), fmt.Sprintf("(g %s) => %s", probe.arg, err.String()))
		case lisp.Show(v) != probe.want || got != probe.want:
			res.Fail("steps case=eql-specializer kind=wrong-method defmethod="+errDigest(derr),
				fmt.Sprintf("(g %s) => %s [%s], required %s (defmethod with (eql 3): %s)", probe.arg, lisp.Show(v), got, probe.want, errDigest(derr)))
		}
	}
	res.Outcome = "defmethod-eql:" + errDigest(derr)
	return
}
