#!/usr/bin/env python3
"""measured-table.py: development aid. Prints a markdown table of what the last quick (/verif/evidence) and
thorough (/verif/.build/out-thorough/evidence) runs actually covered, for DESIGN.md §10.8."""
import json, os
def load(d, pid):
    f = f"{d}/{pid}.json"
    return json.load(open(f)) if os.path.exists(f) else None
def cell(ev):
    if not ev:
        return "—"
    c = ev["coverage"]
    parts = [f"{c.get('evaluations', 0):,} cases"]
    if c.get("states"):
        parts.append(f"{c['states']:,} states")
    if c.get("transitions"):
        parts.append(f"{c['transitions']:,} transitions")
    parts.append(f"{c.get('distinct_outcomes', 0):,} outcomes")
    parts.append(f"{ev.get('wall_s', 0):.0f} s")
    if not c.get("exhaustive", True):
        parts.append("NOT exhaustive")
    return " · ".join(parts)
print("| id | quick (last run) | thorough (last run) | known findings seen (quick / thorough) |")
print("|---|---|---|---|")
for i in range(1, 21):
    pid = f"C{i:02d}"
    q, t = load("/verif/evidence", pid), load("/verif/.build/out-thorough/evidence", pid)
    kq = len(q["coverage"].get("known_findings_seen") or []) if q else 0
    kt = len(t["coverage"].get("known_findings_seen") or []) if t else 0
    print(f"| {pid} | {cell(q)} | {cell(t)} | {kq} / {kt} |")
